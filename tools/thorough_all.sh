#!/bin/bash
# Run every check's thorough tier once (evidence/replays to a scratch dir).
cd "$(dirname "$0")/.."
OUT=$(mktemp -d)
export VERIF_EVIDENCE_DIR=$OUT/evidence VERIF_REPLAY_DIR=$OUT/replays
for p in C01 C02 C03 C04 C05 C06 C07 C10 C11 C12 C13 C14 C16 C17; do
  s=$(date +%s); r=$(VERIF_SEED=${1:-0} bin/check $p --tier thorough 2>&1); c=$?; e=$(date +%s)
  echo "THOROUGH $p exit $c in $((e-s))s"; echo "$r" | grep -E "runs=|clause=|VIOLATION|HARNESS|^OK" | cut -c1-400
done
echo THOROUGH-DONE
