#!/bin/bash
# Verify a seeded change delivered by a sub-agent in /tmp/wt/<ID> and keep it under /verif/seeded/<name>.
# usage: tools/verify_seeded.sh <ID> <name>
set -u
ID=$1; NAME=$2; WT=/tmp/wt/$ID; S=$WT/_seeded
[ -f $S/patch.diff ] && [ -f $S/demo.py ] && [ -f $S/meta.json ] || { echo "missing deliverables in $S"; exit 2; }
cd $WT
git diff -- statemachine > /tmp/wt/$ID.cur.diff
git checkout -q -- statemachine
git apply --check $S/patch.diff || { echo "patch does not apply to the unchanged tree"; exit 2; }
PYTHONPATH=$WT timeout 120 /venv/bin/python $S/demo.py > /tmp/wt/$ID.demo0.log 2>&1; D0=$?
git apply $S/patch.diff
PYTHONPATH=$WT timeout 120 /venv/bin/python $S/demo.py > /tmp/wt/$ID.demo1.log 2>&1; D1=$?
T=$(cd $WT && PYTHONPATH=$WT timeout 900 /venv/bin/python -m pytest -q -p no:cacheprovider --timeout=900 --ignore=_seeded 2>&1 | tail -1)
git checkout -q -- docs 2>/dev/null
echo "demo without change: exit $D0 | demo with change: exit $D1 | tests: $T"
if [ $D0 -eq 0 ] && [ $D1 -ne 0 ] && echo "$T" | grep -q "348 passed"; then
  mkdir -p /verif/seeded/$NAME
  cp $S/patch.diff $S/demo.py /verif/seeded/$NAME/
  /venv/bin/python - <<PY
import json
m=json.load(open("$S/meta.json"))
m["base_commit"]="$(git -C $WT rev-parse --short HEAD)"
m["verified_by_me"]={"demo_without_change_exit":$D0,"demo_with_change_exit":$D1,"tests":"$T".strip(),
  "how":"tools/verify_seeded.sh: patch applied with git apply to an unchanged worktree of /repo HEAD; pytest suite; demo run both ways"}
json.dump(m,open("/verif/seeded/$NAME/meta.json","w"),indent=1)
PY
  echo "KEPT as /verif/seeded/$NAME"
else
  echo "REJECTED"
fi
