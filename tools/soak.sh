#!/bin/bash
# Multi-seed soak of every check's quick tier (evidence/replays written to a scratch dir, not /verif).
# usage: tools/soak.sh <first-seed> <last-seed> [tier]
cd "$(dirname "$0")/.."
T=${3:-quick}
OUT=$(mktemp -d)
export VERIF_EVIDENCE_DIR=$OUT/evidence VERIF_REPLAY_DIR=$OUT/replays
export VERIF_JOBS=${VERIF_JOBS:-8}
for s in $(seq $1 $2); do
  for p in C01 C02 C03 C04 C05 C06 C07 C10 C11 C12 C13 C14 C16 C17; do
    r=$(VERIF_SEED=$s bin/check $p --tier $T 2>&1); c=$?
    if [ $c -ne 0 ]; then echo "SEED $s $p exit $c"; echo "$r" | grep -E "clause=|VIOLATION|HARNESS" | cut -c1-600; mkdir -p soak_fail; cp $OUT/replays/$p-*.json soak_fail/ 2>/dev/null; else echo "seed $s $p ok"; fi
  done
done
echo SOAK-DONE
