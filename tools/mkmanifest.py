#!/venv/bin/python
"""Regenerate MANIFEST.json from the campaign registry (keeps it valid at all times)."""
import json
import os
import sys

VERIF = os.path.dirname(os.path.dirname(os.path.abspath(__file__)))
sys.path.insert(0, VERIF)
sys.path.insert(0, "/repo")
from sim import campaign  # noqa: E402
from sim import campaigns  # noqa: E402,F401

NA = {
    "C08": "pure function of (expression text, valuation of its names): no schedule, clock, fault or "
           "multi-party history can change the outcome, so deterministic simulation would only be input "
           "generation in simulator vocabulary (DESIGN §3 C08); the engine-dependent slices (coroutine "
           "guards in expressions, cond/unless conjunction along histories) are decided under C05 and C01",
    "C09": "class-definition validation is a pure function of the declared graph evaluated once by the "
           "class statement; deciding an 'iff' over all small graphs is exhaustive enumeration (model "
           "checking), which this technique family is not (DESIGN §3 C09)",
    "C15": "relates two deterministic constructions of the same class; there is no schedule, fault or "
           "history for a simulator to vary (DESIGN §3 C15); the one history-dependent mechanism it "
           "touches (State objects shared through inheritance) is exercised under C16",
    "C18": "the DOT graph is a pure function of (class definition, current state value); nothing in it "
           "depends on a schedule, fault or multi-party history (DESIGN §3 C18)",
}

props = [json.loads(l)["id"] for l in open(os.path.join(VERIF, "properties.jsonl"))]
checks = []
na = []
for pid in props:
    if pid in campaign.REGISTRY:
        c = campaign.REGISTRY[pid]()
        checks.append({
            "property_id": pid,
            "quick_cmd": f"bin/check {pid} --tier quick",
            "thorough_cmd": f"bin/check {pid} --tier thorough",
            "evidence_file": f"evidence/{pid}.json",
            "replay_cmd_template": f"bin/check {pid} --replay {{path}}",
            "engine": "sim",
            "level_claimed": {
                "category": c.level,
                "text": c.level_text if hasattr(c, "level_text") else (
                    "seeded search over generated machines, workloads, schedules and fault positions on the "
                    "real library under a deterministic simulator, every step compared with an independent "
                    "reference model; a clean batch is evidence (sampled), not proof"),
                "design_ref": f"DESIGN.md §3 {pid}",
            },
            "level_note": "; ".join(c.assumptions) or "see DESIGN.md §4",
            "technique": c.technique,
        })
    elif pid in NA:
        na.append({"property_id": pid, "reason": NA[pid]})
    else:
        na.append({"property_id": pid, "reason": "not claimed yet: the campaign for this property is not "
                   "built at this commit (planned, see DESIGN.md §3)"})

m = {
    "version": 1,
    "setup_cmd": "bin/check selftest",
    "hooks": {
        "guard": "PYSM_VERIF",
        "enable": "no hooks: every seam is taken from outside the repository (event-loop policy, "
                  "asyncio.as_completed replacement, sys.settrace, generated user code)",
        "baseline_off_cmd": "cd /repo && /venv/bin/python -m pytest -ra -q -p no:cacheprovider --timeout=900 "
                            "--continue-on-collection-errors",
        "source_commits": [],
        "add_only": True,
    },
    "engines": [{"name": "sim", "path": "sim/", "serves_properties": sorted(campaign.REGISTRY),
                 "kind_free_text": "deterministic simulator: virtual-time asyncio loop, seeded as_completed "
                                   "order, settrace baton thread scheduler, generated user code with behaviour "
                                   "as data, independent reference interpreter, ddmin minimiser, fresh-process replay"}],
    "checks": checks,
    "not_applicable": na,
    "notes": "Checks rebuild nothing: the pure-Python package is imported from /repo's working tree "
             "(VERIF_REPO overrides it for the sensitivity self-test only). Exit 0 = held; exit 1 + "
             "'VIOLATION property=<id> replay=<path>'; exit 2 = HARNESS-ERROR (never a violation, never success).",
}
json.dump(m, open(os.path.join(VERIF, "MANIFEST.json"), "w"), indent=1)
print("MANIFEST.json:", len(checks), "checks,", len(na), "not_applicable")
