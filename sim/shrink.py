"""Greedy delta-debugging over the explicit Scenario (DESIGN §2.11).

A reduction is kept iff the *same clause of the same property* still fires.  The scenario is plain
JSON, so reductions are structural edits; programs are kept well-formed.
"""

import copy

from .ref import _expr_names

GROUP_KEYS = ("validators", "cond", "unless", "before", "on", "after")


def wellformed(prog):
    states = prog["states"]
    ids = [s["id"] for s in states]
    if len([s for s in states if s.get("initial")]) != 1:
        return False
    finals = {s["id"] for s in states if s.get("final")}
    if not prog["trans"]:
        return False
    for t in prog["trans"]:
        if t["src"] not in ids or t["dst"] not in ids or t["src"] in finals:
            return False
        if t.get("internal") and t["src"] != t["dst"]:
            return False
        if not t["events"]:
            return False
    init = next(s["id"] for s in states if s.get("initial"))
    seen = {init}
    todo = [init]
    while todo:
        s = todo.pop()
        for t in prog["trans"]:
            if t["src"] == s and t["dst"] not in seen:
                seen.add(t["dst"])
                todo.append(t["dst"])
    if seen != set(ids):
        return False
    for s in ids:
        if s not in finals and not any(t["src"] == s for t in prog["trans"]):
            return False
    names = {c.split(".", 1)[1] for c in prog["cbs"]}
    for t in prog["trans"]:
        for g in GROUP_KEYS:
            for expr in t.get(g, []):
                for n in _expr_names(expr):
                    if n not in names:
                        return False
    for s in states:
        for g in ("enter", "exit"):
            for n in s.get(g, []):
                if n not in names:
                    return False
    return True


def prune_names(prog):
    """Remove inline references to names nobody provides any more; fix the event list."""
    names = {c.split(".", 1)[1] for c in prog["cbs"]}
    for t in prog["trans"]:
        for g in GROUP_KEYS:
            if g in t:
                t[g] = [e for e in t[g] if all(n in names for n in _expr_names(e))]
                if not t[g]:
                    del t[g]
    for s in prog["states"]:
        for g in ("enter", "exit"):
            if g in s:
                s[g] = [n for n in s[g] if n in names]
                if not s[g]:
                    del s[g]
    from .ref import RefProgram

    try:
        refd = RefProgram(prog).referenced
        for c in [c for c in prog["cbs"] if c.split(".", 1)[1] not in refd]:
            del prog["cbs"][c]
    except StopIteration:
        pass
    prog["events"] = [e for e in prog.get("events", [])
                      if any(e in t["events"] for t in prog["trans"] + prog.get("any", []))]
    if prog.get("event_decl"):
        # a stand-alone ``Event()`` attribute that no transition uses would still be a declared event
        prog["event_decl"] = [e for e in prog["event_decl"] if any(e in t["events"] for t in prog["trans"])]
    seen = set(prog.get("event_decl") or []) | {a["events"][0] for a in prog.get("any", [])}
    for t in prog["trans"]:
        if t.get("assign") and (t["assign"] in seen or t["events"] != [t["assign"]]):
            del t["assign"]
        if t.get("assign"):
            seen.add(t["assign"])


def drop_op(sc, i):
    sc = copy.deepcopy(sc)
    del sc["ops"][i]
    for c, g in sc.get("gv", {}).items():
        v = g["v"] if isinstance(g, dict) else g
        if len(v) > i and len(v) > 1:
            del v[i]
    for c, rules in list(sc.get("beh", {}).items()):
        keep = []
        for r in rules:
            if r.get("ep") is not None:
                if r["ep"] == i:
                    continue
                if r["ep"] > i:
                    r["ep"] -= 1
            keep.append(r)
        if keep:
            sc["beh"][c] = keep
        else:
            del sc["beh"][c]
    return sc


def candidates(sc):
    """Yield reduced copies of the scenario, most aggressive first."""
    ops = sc["ops"]
    n = len(ops)
    # 1. drop suffixes / single ops (never the constructing op of an instance that is used later)
    for cut in (n // 2, n // 4):
        if 1 < n - cut < n and cut > 0:
            c = copy.deepcopy(sc)
            del c["ops"][n - cut:]
            yield c
    # 1a. a whole instance (its construction and everything addressed to it)
    insts = []
    for o in ops:
        if o.get("inst") is not None and o["inst"] not in insts:
            insts.append(o["inst"])
    if len(insts) > 1:
        for tag in reversed(insts):
            c = sc
            for i in range(n - 1, -1, -1):
                o = ops[i]
                if o.get("inst") == tag or o.get("as") == tag or o.get("from") == tag:
                    c = drop_op(c, i)
            if len(c["ops"]) < n:
                c = copy.deepcopy(c)
                if "insts" in c:
                    c["insts"] = [t for t in c["insts"] if t != tag]
                yield c
    for i in range(n - 1, -1, -1):
        op = ops[i]
        if op["op"] == "new":
            if any(o.get("inst") == op.get("inst") or o.get("from") == op.get("inst") for o in ops[i + 1:]):
                continue
        if op["op"] == "define":
            if any(o["op"] == "new" and o.get("prog") == op["prog"] for o in ops[i + 1:]):
                continue
        yield drop_op(sc, i)
    # 2. behaviours
    for cb in sorted(sc.get("beh", {})):
        c = copy.deepcopy(sc)
        del c["beh"][cb]
        yield c
    for cb in sorted(sc.get("beh", {})):
        for ri, r in enumerate(sc["beh"][cb]):
            for key in ("sends", "pre", "post", "ret", "raise"):
                if key in r:
                    c = copy.deepcopy(sc)
                    del c["beh"][cb][ri][key]
                    yield c
            if r.get("sends") and len(r["sends"]) > 1:
                for si in range(len(r["sends"])):
                    c = copy.deepcopy(sc)
                    del c["beh"][cb][ri]["sends"][si]
                    yield c
            for key in ("pre", "post"):
                if r.get(key):
                    c = copy.deepcopy(sc)
                    c["beh"][cb][ri][key] = 0
                    yield c
    # 3. program structure
    for pi, prog in enumerate(sc["programs"]):
        for ti in range(len(prog["trans"]) - 1, -1, -1):
            c = copy.deepcopy(sc)
            del c["programs"][pi]["trans"][ti]
            yield c
        for cb in sorted(prog["cbs"]):
            c = copy.deepcopy(sc)
            del c["programs"][pi]["cbs"][cb]
            full = f"{prog['name']}/{cb}"
            c.get("beh", {}).pop(full, None)
            c.get("gv", {}).pop(full, None)
            yield c
        for ti, t in enumerate(prog["trans"]):
            for g in GROUP_KEYS:
                for ni in range(len(t.get(g, []))):
                    c = copy.deepcopy(sc)
                    del c["programs"][pi]["trans"][ti][g][ni]
                    yield c
            if len(t["events"]) > 1:
                for ei in range(len(t["events"])):
                    c = copy.deepcopy(sc)
                    del c["programs"][pi]["trans"][ti]["events"][ei]
                    yield c
            if t.get("internal"):
                c = copy.deepcopy(sc)
                del c["programs"][pi]["trans"][ti]["internal"]
                yield c
        for si in range(len(prog["states"]) - 1, -1, -1):
            s = prog["states"][si]
            if s.get("initial"):
                continue
            c = copy.deepcopy(sc)
            sid = s["id"]
            p2 = c["programs"][pi]
            del p2["states"][si]
            p2["trans"] = [t for t in p2["trans"] if t["src"] != sid and t["dst"] != sid]
            yield c
        for role in list(prog.get("listeners", [])):
            c = copy.deepcopy(sc)
            p2 = c["programs"][pi]
            p2["listeners"].remove(role)
            for cb in [x for x in p2["cbs"] if x.startswith(role + ".")]:
                del p2["cbs"][cb]
            for op in c["ops"]:
                if role in op.get("listeners", []):
                    op["listeners"] = [x for x in op["listeners"] if x != role]
            yield c
        for cb in sorted(prog["cbs"]):
            meta = prog["cbs"][cb]
            if meta.get("async"):
                c = copy.deepcopy(sc)
                del c["programs"][pi]["cbs"][cb]["async"]
                yield c
            if meta.get("sig"):
                c = copy.deepcopy(sc)
                c["programs"][pi]["cbs"][cb]["sig"] = [p for p in meta["sig"] if p["name"] == "machine"]
                if c["programs"][pi]["cbs"][cb]["sig"] != meta["sig"]:
                    yield c
    # 4. op details
    for i, op in enumerate(ops):
        for key in ("kwargs", "args", "style", "allow", "start_value"):
            if key in op and op[key]:
                c = copy.deepcopy(sc)
                del c["ops"][i][key]
                yield c
        if op.get("rtc") is False:
            c = copy.deepcopy(sc)
            c["ops"][i]["rtc"] = True
            yield c
    if sc.get("driver") not in (None, "sync"):
        c = copy.deepcopy(sc)
        c["driver"] = "sync"
        yield c
    if sc.get("perm_seed"):
        c = copy.deepcopy(sc)
        c["perm_seed"] = 0
        yield c
    for si, sd in enumerate(sc.get("senders", [])):
        if len(sc["senders"]) > 2:
            c = copy.deepcopy(sc)
            del c["senders"][si]
            yield c
        for j in range(len(sd["sends"]) - 1, -1, -1):
            if len(sd["sends"]) > 1:
                c = copy.deepcopy(sc)
                del c["senders"][si]["sends"][j]
                yield c
            for key in ("think", "early"):
                if sd["sends"][j].get(key):
                    c = copy.deepcopy(sc)
                    del c["senders"][si]["sends"][j][key]
                    yield c
    for k in ("tplan",):
        if sc.get(k):
            plan = sc[k]
            for i in range(len(plan) - 1, -1, -1):
                c = copy.deepcopy(sc)
                del c[k][i]
                yield c


def normalise(sc):
    for p in sc["programs"]:
        prune_names(p)
        if not wellformed(p):
            return None
    sc.pop("sources", None)
    return sc


def shrink(sc, still_fails, max_evals=600):
    """Returns (minimised scenario, evaluations used)."""
    cur = sc
    evals = 0
    improved = True
    while improved and evals < max_evals:
        improved = False
        for cand in candidates(cur):
            if evals >= max_evals:
                break
            cand = normalise(cand)
            if cand is None:
                continue
            evals += 1
            try:
                ok = still_fails(cand)
            except Exception:
                ok = False
            if ok:
                cur = cand
                improved = True
                break
    return cur, evals


def size(sc):
    n = len(sc["ops"])
    for p in sc["programs"]:
        n += len(p["states"]) + len(p["trans"]) + len(p["cbs"])
    n += sum(len(r) for r in sc.get("beh", {}).values())
    return n
