"""One module per group of properties; importing this package populates campaign.REGISTRY."""
from . import basic  # noqa: F401
from . import rtc  # noqa: F401
from . import faults  # noqa: F401
from . import asynceq  # noqa: F401
from . import concurrent  # noqa: F401
from . import storage  # noqa: F401
from . import entry  # noqa: F401
from . import clone  # noqa: F401
from . import listeners  # noqa: F401
from . import binding  # noqa: F401
from . import isolation  # noqa: F401
