"""C03: run-to-completion — nested events are queued, FIFO, never interleaved.

The oracle is the reference queue model applied at *event* granularity (coarse matching: one item
per event execution), so that the order of groups inside a transition (C02) and the assembly of
results (C14) cannot make this check speak.  Return values are unique per invocation so that "the
outermost call returns the first event's result" can be decided by provenance of the values.
"""

from .. import gen
from ..campaign import Campaign
from ..campaign import register
from .basic import ASYNC_MODES


def leaves(v, out=None):
    out = [] if out is None else out
    if isinstance(v, list):
        for x in v:
            leaves(x, out)
    elif isinstance(v, dict):
        for key in ("$tu",):
            if key in v:
                leaves(v[key], out)
    elif isinstance(v, str) and v.startswith("u:"):
        out.append(v)
    return out


def exec_values(ex):
    vals = []
    for it in ex["items"]:
        if it["g"] in ("before", "on"):
            for m in it["members"]:
                r = m.get("ret")
                if isinstance(r, str) and r.startswith("u:"):
                    vals.append(r)
    return vals


def chain_scenario(rnd, n, rtc, is_async):
    place = rnd.choice(["after", "on", "enter", "before", "exit"])
    prog = {"name": "M0", "module": "simgen_m0", "listeners": ["L0"], "model": {"kind": "attr", "field": "state"},
            "states": [{"id": "s0", "initial": True, "final": False}, {"id": "s1", "initial": False, "final": False}],
            "trans": [{"src": "s0", "dst": "s0", "events": ["tick"]},
                      {"src": "s0", "dst": "s1", "events": ["go"]},
                      {"src": "s1", "dst": "s0", "events": ["go"]}],
            "events": ["tick", "go"],
            "cbs": {}}
    role = rnd.choice(["machine", "model", "L0"])
    names = {"after": "after_tick", "on": "on_tick", "enter": "on_enter_s0", "before": "before_tick",
             "exit": "on_exit_s0"}
    cb = f"{role}.{names[place]}"
    sig = [gen.P("machine")] if role != "machine" else []
    prog["cbs"][cb] = {"group": place, "sig": sig}
    prog["cbs"]["machine.on_transition"] = {"group": "on", "sig": [gen.P("event")]}
    prog["cbs"]["model.after_transition"] = {"group": "after", "sig": [gen.P("state")]}
    if is_async:
        for c in prog["cbs"]:
            prog["cbs"][c]["async"] = True
    beh = {f"M0/{cb}": [{"sends": [{"event": "tick"}], "sends_jlt": n if rtc else 1,
                         "sends_dplt": None if rtc else n}],
           "M0/machine.on_transition": [{"ret": {"$uniq": 1}}]}
    if is_async and rnd.random() < 0.5:
        beh[f"M0/{cb}"][0]["pre"] = rnd.choice([0, 0.001])
    ops = [{"op": "new", "inst": "A", "prog": 0, "listeners": ["L0"], "rtc": rtc, "allow": True},
           {"op": "send", "inst": "A", "event": "tick"},
           {"op": "send", "inst": "A", "event": "go"}]
    return {"profile": "C03", "programs": [prog], "beh": beh, "gv": {}, "ops": ops,
            "driver": rnd.choice(["sync", "inloop"]) if is_async else "sync", "perm_seed": 0,
            "chain": n}


def burst_scenario(rnd, n, is_async):
    """One callback of ``go`` sends n events at once: all of them wait in the queue together and must
    all be processed, in order, by the same drain."""
    place = rnd.choice(["after", "on", "before"])
    prog = {"name": "M0", "module": "simgen_m0", "listeners": ["L0"], "model": {"kind": "attr", "field": "state"},
            "states": [{"id": "s0", "initial": True, "final": False}, {"id": "s1", "initial": False, "final": False}],
            "trans": [{"src": "s0", "dst": "s0", "events": ["tick"]},
                      {"src": "s1", "dst": "s1", "events": ["tick"], "internal": True},
                      {"src": "s0", "dst": "s1", "events": ["go"]},
                      {"src": "s1", "dst": "s0", "events": ["go"]}],
            "events": ["tick", "go"],
            "cbs": {}}
    role = rnd.choice(["machine", "model", "L0"])
    cb = f"{role}.{place}_go"
    prog["cbs"][cb] = {"group": place, "sig": [gen.P("machine")] if role != "machine" else []}
    prog["cbs"]["machine.on_transition"] = {"group": "on", "sig": [gen.P("event")]}
    if is_async:
        for c in prog["cbs"]:
            prog["cbs"][c]["async"] = True
    beh = {f"M0/{cb}": [{"sends": [{"event": "tick"}], "sends_repeat": n, "sends_jlt": 1}],
           "M0/machine.on_transition": [{"ret": {"$uniq": 1}}]}
    ops = [{"op": "new", "inst": "A", "prog": 0, "listeners": ["L0"], "rtc": True, "allow": True},
           {"op": "send", "inst": "A", "event": "go"},
           {"op": "send", "inst": "A", "event": "tick"}]
    return {"profile": "C03", "programs": [prog], "beh": beh, "gv": {}, "ops": ops,
            "driver": rnd.choice(["sync", "inloop"]) if is_async else "sync", "perm_seed": 0,
            "burst": n}


@register
class C03(Campaign):
    pid = "C03"
    title = "Run-to-completion: nested events are queued, FIFO, never interleaved"
    coarse = True
    armed = {"seq.*": "C03.order", "barrier": "C03.no_interleave"}
    quick_runs = 2500
    thorough_runs = 40000
    fault_kinds = ["nested-send@validators|before|exit|on|enter|after", "nested-send@initial-enter (constructor, first event, or explicit activate_initial_state())",
                   "fan-out (several sends per callback / per transition)", "burst fan-out (300-2500 events pending at once)",
                   "self-triggering chain (<=5000)", "nested send from a plain function of an async machine",
                   "async-callback-delay"]
    rule = ("one run = one generated machine in which 1-4 callbacks (any group, machine/model/listener, "
            "including the initial state's enter) send 1-3 nested events each, up to 3 times per "
            "operation, driven through 5-25 events with rtc on/off and sync/async callbacks; plus "
            "self-triggering chains of 50-5000 events. The real run is matched at event granularity "
            "against the reference queue model (FIFO, nothing of event k+1 before every callback of "
            "event k has ended; depth-first when rtc=False); nested/outer return values are decided by "
            "provenance of per-invocation unique values; call-stack depth per callback is compared "
            "along the chain. Non-trivial = at least one operation processed >=2 events; distinct = "
            "distinct trace digests among those.")
    assumptions = [
        "machines are tolerant (allow_event_without_transition=True) and fault-free so that a nested "
        "send never fails (failures are C04's subject)",
        "at most one sending callback per group instance (order inside a group is unspecified)",
        "async machines: nested sends from coroutine callbacks, and (30 % of the async runs) from one plain function, "
        "which cannot await what send() returns: the event is queued by the call itself",
    ]

    def knobs(self, rnd, tier):
        return gen.knobs(async_modes=ASYNC_MODES, drivers=["sync", "sync", "inloop"], senders=(1, 4),
                         sends_per=(1, 3), sends_jlt=(1, 3), allow=[True], rtc=[True, True, False],
                         p_validator=0.2, p_unknown_event=0.05, p_ret=0.0, n_ops=(3, 15), p_action=0.45,
                         p_state_action=0.4, p_conv=0.3, p_plain_sender=0.3)

    def scenario(self, rnd, tier):
        r = rnd.random()
        if r < 0.06:
            is_async = rnd.random() < 0.4
            rtc = True if is_async else rnd.random() < 0.75
            if rtc:
                n = rnd.choice([50, 200, 1000] + ([5000] if tier == "thorough" else [2000]))
            else:
                n = rnd.choice([5, 20, 40])
            return chain_scenario(rnd, n, rtc, is_async)
        if r < 0.08:
            return burst_scenario(rnd, rnd.choice([300, 1100, 2500]), rnd.random() < 0.4)
        sc = super().scenario(rnd, tier)
        prog = sc["programs"][0]
        if any(m.get("async") for m in prog["cbs"].values()) and rnd.random() < 0.4:
            # the deferred activation of an async machine requested explicitly: events sent by the initial
            # state's enter callbacks are queued behind the activation like any nested event
            sc["ops"].insert(1, {"op": "activate", "inst": "A"})
            for g in sc["gv"].values():
                g.append(g[-1])
            if rnd.random() < 0.5:
                # ... and once more (nothing is queued then): the machine stays usable
                sc["ops"].insert(2, {"op": "activate", "inst": "A"})
                for g in sc["gv"].values():
                    g.append(g[-1])
        for c, m in sorted(prog["cbs"].items()):
            if m["group"] in ("before", "on") and rnd.random() < 0.6:
                full = f"{prog['name']}/{c}"
                rules = sc["beh"].setdefault(full, [{}])
                rules[-1]["ret"] = {"$uniq": 1}
        return sc

    def extra_checks(self, sc, res, m, unarmed):
        if any(u in self.DESYNC for u in unarmed):
            return []
        out = []
        outs = {o["n"]: o for o in res["outs"]}
        rtc = sc["ops"][0].get("rtc", True)
        # (a) the outermost call returns the result of the FIRST event
        for n, exp in sorted(m.exp_by_op.items()):
            o = outs.get(n)
            if o is None or o.get("skipped"):
                continue
            if (o.get("exc") or {}).get("cls") == "RecursionError":
                return [{"clause": "C03.depth", "kind": "recursion", "op": n, "detail": {"exc": o["exc"]}}]
            if sc["ops"][n]["op"] != "send" or o.get("exc") or exp.get("exc"):
                continue
            execs = [e for e in exp["execs"] if not e.get("initial")]
            if not execs:
                continue
            first = set(exec_values(execs[0]))
            later = set()
            for e in execs[1:]:
                later.update(exec_values(e))
            got = leaves(o.get("res"))
            bad = [g for g in got if g not in first]
            if bad or (first and not got):
                out.append({"clause": "C03.first_result", "kind": "first_result", "op": n,
                            "detail": {"result": o.get("res"), "first_event_values": sorted(first),
                                       "from_later_events": sorted(set(bad) & later)}})
                return out
        # (b) nested sends: None in rtc mode, own result when rtc=False
        trace = res["trace"]
        nsb = {r["q"]: r for r in trace if r["k"] == "ns+"}
        for r in trace:
            if r["k"] != "ns-" or r["out"][0] != "ret":
                continue
            b = nsb[r["r"]]
            val = r["out"][1]
            if rtc:
                if val is not None:
                    out.append({"clause": "C03.nested_return", "kind": "nested_not_none", "op": None,
                                "detail": {"event": b["ev"], "returned": val}})
                    return out
            else:
                inside = set()
                for x in trace:
                    if b["q"] < x["q"] < r["q"] and x["k"] == "cb-" and x["out"][0] == "ret":
                        v = x["out"][1]
                        if isinstance(v, str) and v.startswith("u:"):
                            inside.add(v)
                got = leaves(val)
                bad = [g for g in got if g not in inside]
                if bad:
                    out.append({"clause": "C03.nested_return", "kind": "nested_foreign_value", "op": None,
                                "detail": {"event": b["ev"], "returned": val}})
                    return out
        # (c) constant call-stack depth along a chain (rtc)
        if rtc:
            seen = {}
            for r in trace:
                if r["k"] == "cb+" and r.get("p") is None:
                    key = (r["e"], r["c"])
                    if key in seen and seen[key] != r["d"]:
                        out.append({"clause": "C03.depth", "kind": "depth_grows", "op": r["e"],
                                    "detail": {"cb": r["c"], "first": seen[key], "later": r["d"], "j": r["j"]}})
                        return out
                    seen.setdefault(key, r["d"])
        return out

    def nontrivial(self, sc, ev):
        if ev["mstats"].get("queued_execs", 0) + ev["mstats"].get("nested_execs", 0) > 0:
            return ev["res"]["digest"]
        return None

    def counters(self, sc, ev):
        m = ev["mstats"]
        st = ev["res"]["stats"]
        c = {"fault.nested_sends": st.get("sends", 0), "probe.queued_event_executions": m.get("queued_execs", 0),
             "probe.depth_first_nested_executions": m.get("nested_execs", 0),
             "fault.virtual_delays": st.get("delays", 0)}
        c["fault.nested_send_from_plain_function(async machine)"] = st.get("plain_sends_on_async_machine", 0)
        if sc.get("burst"):
            c["probe.bursts"] = 1
            c["fault.burst_fan_out_events"] = sc["burst"]
            if sc["burst"] > 1024:
                c["probe.bursts_gt_1024_pending"] = 1
        if sc.get("chain"):
            c["probe.chains"] = 1
            c["probe.chain_events"] = sc["chain"]
            if sc["chain"] >= 1000:
                c["probe.chains_ge_1000"] = 1
        # nested sends from the initial state's enter callback
        for r in ev["res"]["trace"]:
            if r["k"] == "ns+" and r.get("r"):
                pass
        return c
