"""C13: send(), event methods and bound events are one and the same entry point.

Differential over calling styles: the same history is run once with every send issued through
``sm.send(name)`` (baseline, must agree with the reference) and once with a seeded mix of styles —
``sm.<event>()``, items of ``sm.events`` / ``sm.allowed_events``, triggers bound onto another object
with ``bind_events_to``, a ``MachineMixin`` model — plus *channel faults*: names that are attributes of
the machine (methods, properties, dunders, state ids, private helpers, callback names) passed to
``send``.  A non-event name must behave as an unknown event and leave the machine untouched.
"""

import copy

from .. import gen
from .. import match
from ..campaign import Campaign
from ..campaign import register

GARBAGE = ["add_listener", "__class__", "__init__", "_graph", "model", "send", "current_state",
           "current_state_value", "allowed_events", "events", "states", "activate_initial_state",
           "bind_events_to", "__dict__", "__repr__", "_get_engine", "_processing_loop", "name", "state_field",
           "TransitionNotAllowed", "initial_state", "final_states", "_abstract", "__doc__", "__module__",
           "_listeners", "add_observer", "_register_callbacks", "_repr_html_", "states_map", "start_value",
           "allow_event_without_transition", "_callbacks", "_engine", "__getstate__", "__eq__", "__hash__",
           "_put_nonblocking", "_add_listener", "_get_initial_state", "__init_subclass__", "__reduce__",
           "qwerty", "", " ", "go back", "Ev", "__initial__", "__initial__"]


def baseline(sc):
    b = copy.deepcopy(sc)
    for op in b["ops"]:
        if op["op"] == "send":
            if op.get("garbage"):
                op["event"] = "zz_unknown"
                del op["garbage"]
            op["style"] = "send"
        if op["op"] == "new":
            op.pop("bind", None)
    return b


@register
class C13(Campaign):
    pid = "C13"
    title = "send(), event methods and bound events are one and the same entry point"
    technique = ("deterministic simulation, differential over calling styles + channel-fault injection "
                 "(attribute names as event names) with before/after snapshots; reference interpreter")
    quick_runs = 3000
    thorough_runs = 50000
    fault_kinds = ["garbage-event: machine method / property / dunder / private helper / state id / callback name / "
                   "user-defined property (also one that raises) / trigger of another machine bound onto this one",
                   "unknown-event", "style: call / events item / allowed_events item / bind_events_to target / "
                   "MachineMixin model method"]
    rule = ("one run = a generated machine and a 5-25 operation history run twice: baseline (every send via "
            "sm.send) and a seeded mix of calling styles with channel faults (attribute names of the machine "
            "sent as events). The baseline must agree with the reference; then every divergence of the mixed "
            "run (state, result, exception, callbacks), any difference between before/after snapshots of the "
            "machine around a non-event name, any non-None result of such a send, and any mismatch of "
            "allowed_events / events with the reference is C13's. Non-trivial = >=2 distinct styles used or "
            ">=1 attribute name sent; distinct = distinct trace digests of the mixed run.")
    assumptions = [
        "the all-send baseline must agree with the reference, otherwise the run is not judged",
        "names are drawn from a fixed list of attributes every StateMachine instance has, plus the program's "
        "own state ids and callback names; event ids never collide with them (generator)",
    ]

    def scenario(self, rnd, tier):
        k = gen.knobs(p_validator=0.1, listeners=(0, 1), rtc=[True, True, False], allow=[False, False, True],
                      async_modes=["none", "none", "none", "all", "mixed"], drivers=["sync"], p_unknown_event=0.08,
                      p_ret=0.6, p_call_style=0.0, p_from_any=0.25, p_event_obj=0.3, p_event_decl=0.25, p_decl_style=0.2, p_or_group=0.2, p_devent=0.2, p_multi_source=0.2)
        sc = gen.gen_scenario(rnd, k, profile="C13")
        prog = sc["programs"][0]
        is_async = any(m.get("async") for m in prog["cbs"].values())
        if is_async:
            sc["driver"] = rnd.choice(["sync", "inloop"])
        new = sc["ops"][0]
        mixin = (not is_async) and rnd.random() < 0.15 and not prog["listeners"]
        if mixin:
            prog["model"] = {"kind": "mixin", "field": "state", "bind": True}
            new["mixin"] = True
            new["rtc"] = True
            new["allow"] = False
            new["listeners"] = []
        else:
            new["bind"] = rnd.random() < 0.5
            if new["bind"] and rnd.random() < 0.4:
                new["bind_conflict"] = rnd.choice(prog["events"])
        names = GARBAGE + [s["id"] for s in prog["states"]] + \
            sorted({c.split(".", 1)[1] for c in prog["cbs"] if c.startswith("machine.")})
        # user-defined attributes of the machine whose evaluation is observable
        prog["probes"] = [{"name": "probe_prop", "kind": "property"},
                          {"name": "probe_boom", "kind": "raising_property"},
                          {"name": "probe_method", "kind": "method"}]
        names += ["probe_prop", "probe_boom", "probe_method"] * 2
        # ``event=`` names given to from_.any(): the declared event is the attribute's name alone
        names += [a["alias"] for a in prog.get("any", []) if a.get("alias")] * 4
        out = [new]
        foreign = (not mixin) and rnd.random() < 0.3
        if foreign:
            # another machine whose trigger `zap` gets bound onto this machine object
            fprog = {"name": "F0", "module": "simgen_f0", "listeners": [], "model": {"kind": "attr", "field": "state"},
                     "states": [{"id": "f0", "initial": True, "final": False}, {"id": "f1", "initial": False, "final": False}],
                     "trans": [{"src": "f0", "dst": "f1", "events": ["zap"]}, {"src": "f1", "dst": "f0", "events": ["zap"]}],
                     "events": ["zap"], "cbs": {}}
            sc["programs"].append(fprog)
            out = [{"op": "new", "inst": "Z", "prog": 1, "listeners": []}, new,
                   {"op": "bind_foreign", "inst": "A", "from": "Z"}]
            names += ["zap"] * 6
        for op in sc["ops"][1:]:
            if rnd.random() < 0.18:
                g = rnd.choice(names)
                if g not in prog["events"]:
                    out.append({"op": "send", "inst": "A", "event": g, "garbage": True, "style": "send"})
            if op["op"] == "send" and op["event"] in prog["events"]:
                styles = ["send", "call", "events", "allowed", "foreign_bound"]
                if new.get("bind"):
                    styles.append("bound")
                if mixin:
                    styles.append("mixin")
                op["style"] = rnd.choice(styles)
            out.append(op)
        plain = [e for e in prog["events"] if not any(e in a["events"] for a in prog.get("any", []))]
        if len(plain) >= 2 and rnd.random() < 0.3:
            # two different events with the same human-readable name (identity of an event is its id)
            a, b = rnd.sample(plain, 2)
            prog["event_names"] = {a: "Same label", b: "Same label"}
            for t in prog["trans"]:
                if t.get("assign") in (a, b):
                    if rnd.random() < 0.5:
                        t["assign_event"] = True  # ``a = Event(x.to(y), name="Same label")``
                    else:
                        del t["assign"]
                        t.pop("assign_event", None)
        sc["ops"] = out
        n = len(out)
        for c in sc["gv"]:
            while len(sc["gv"][c]) < n:
                sc["gv"][c].append(rnd.getrandbits(len(prog["states"])))
        sc["observe_more"] = True
        plain = not any(prog.get(f) for f in ("any", "event_decl", "event_names")) and not any(
            t.get(f) for t in prog["trans"] for f in ("orgroup", "devent", "msrc")) and not foreign and not mixin
        if plain and rnd.random() < 0.15:
            # the driven machine is an instance of a SUBCLASS that attaches new events -- given by name
            # only -- to inherited states: they are declared events of the subclass like any other
            from .basic import C02

            C02.drive_a_subclass(rnd, sc)
        return sc

    def evaluate(self, sc):
        b = baseline(sc)
        bres = self.execute(b)
        bm = match.Matcher(b, bres)
        bf = bm.run(stop_at_first=False)
        out = {"violations": [], "unarmed": [], "mstats": bm.stats, "res": bres, "evals": 1, "c13": {}}
        v = self.own(b, bres, bm, bf, allow_styles=False)
        if v == "desync":
            out["c13"]["probe.baseline_not_in_step_with_reference(skipped)"] = 1
            return out
        if v:
            out["violations"] = [v]
            out["scenario"] = b
            return out
        res = self.execute(sc)
        m = match.Matcher(sc, res)
        f = m.run(stop_at_first=False)
        out.update({"res": res, "mstats": m.stats, "evals": 2})
        v = self.own(sc, res, m, f, allow_styles=True)
        if v and v != "desync":
            out["violations"] = [v]
        elif v == "desync":
            pass
        return out

    def own(self, sc, res, m, findings, allow_styles):
        """First C13 violation of a run, 'desync' when the run is not in step for other reasons."""
        prog = sc["programs"][0]
        for f in findings:
            kind = f["kind"]
            if kind == "allowed":
                return {"clause": "C13.allowed_events", "kind": kind, "op": f["op"], "detail": f["detail"]}
            if kind in self.DESYNC or kind in ("op_result", "cross_instance"):
                if not allow_styles:
                    return "desync"
                op = sc["ops"][f["op"]] if f["op"] is not None and f["op"] < len(sc["ops"]) else {}
                d = dict(f["detail"])
                d["style"] = op.get("style")
                d["event"] = op.get("event")
                clause = "C13.non_event_name" if op.get("garbage") else "C13.styles_interchangeable"
                d["name_kind"] = self.name_kind(prog, op.get("event")) if op.get("garbage") else None
                return {"clause": clause, "kind": kind, "op": f["op"], "detail": d}
        # events lists every declared event
        prog_of = {o["inst"]: o["prog"] for o in sc["ops"] if o["op"] == "new"}
        for o in res["outs"]:
            obs = o.get("obs") or {}
            inst_ = sc["ops"][o["n"]].get("inst")
            if inst_ not in prog_of:
                continue
            want = sorted(sc["programs"][prog_of[inst_]]["events"])
            if "events" in obs and obs["events"] != want:
                return {"clause": "C13.events", "kind": "events", "op": o["n"],
                        "detail": {"expected": want, "actual": obs["events"]}}
        # a non-event name leaves the machine untouched and yields nothing but TNA / None
        outs = {o["n"]: o for o in res["outs"]}
        for r in res["trace"]:
            if r["k"] == "snap":
                if not r["same"]:
                    return {"clause": "C13.non_event_name", "kind": "side_effect", "op": r["n"],
                            "detail": {"name": r["name"], "changed": r["diff"],
                                       "name_kind": self.name_kind(prog, r["name"])}}
                o = outs.get(r["n"]) or {}
                if o.get("res") is not None:
                    return {"clause": "C13.non_event_name", "kind": "returned_value", "op": r["n"],
                            "detail": {"name": r["name"], "returned": o.get("res"),
                                       "name_kind": self.name_kind(prog, r["name"])}}
        return None

    @staticmethod
    def name_kind(prog, name):
        if name is None:
            return None
        if name == "zap":
            return "foreign_bound_trigger"
        if name.startswith("probe_"):
            return "user_defined_attribute"
        if name in [s["id"] for s in prog["states"]]:
            return "state_id"
        if name in {c.split(".", 1)[1] for c in prog["cbs"]}:
            return "callback_name"
        if name.startswith("__") and name.endswith("__"):
            return "dunder"
        if name.startswith("_"):
            return "private"
        if name in GARBAGE and name.isidentifier():
            return "public_attribute"
        return "other_string"

    def nontrivial(self, sc, ev):
        styles = {o.get("style") for o in sc["ops"] if o["op"] == "send"}
        if ev.get("evals") == 2 and (len(styles) >= 2 or any(o.get("garbage") for o in sc["ops"])):
            return ev["res"]["digest"]
        return None

    def counters(self, sc, ev):
        c = dict(ev.get("c13", {}))
        prog = sc["programs"][0]
        for o in sc["ops"]:
            if o["op"] == "send":
                if o.get("garbage"):
                    c["fault.garbage-event." + self.name_kind(prog, o["event"])] = \
                        c.get("fault.garbage-event." + self.name_kind(prog, o["event"]), 0) + 1
                else:
                    c["probe.style." + str(o.get("style"))] = c.get("probe.style." + str(o.get("style")), 0) + 1
        c["probe.style_allowed_fallback_to_send"] = ev["res"]["stats"].get("style_fallback", 0)
        return c

    def signature(self, v, sc):
        sig = super().signature(v, sc)
        d = v.get("detail", {})
        sig["name_kind"] = d.get("name_kind")
        sig["style"] = d.get("style")
        return sig
