"""C04: a failing callback leaves a consistent, usable machine  (fault enumeration).

For every generated scenario a fault-free run numbers all callback invocations; each position then
becomes a crash point: the scenario is re-run with an exception injected exactly there (every
position in the thorough tier, a seeded sample in the quick tier), plus sequences of two faults,
queued events that turn out not to be allowed, and (async) cancellation at a virtual time.

Only what happens *from the failing operation on* is judged (DESIGN §3 C04, §4.3): the exception
object that reaches the caller, the state by phase, and the behaviour of the following operations
(probes) against the reference started from the post-fault state with an empty queue.
"""

import copy

from .. import gen
from .. import match
from ..campaign import Campaign
from ..campaign import register
from .basic import ASYNC_MODES

ACTION = ("validators", "before", "exit", "on", "enter", "after")


def solo_guards(prog):
    """Guards that are the only guard entry of every transition using them (see module doc)."""
    use = {}
    for t in prog["trans"]:
        entries = list(t.get("cond", [])) + list(t.get("unless", []))
        for e in entries:
            if e.isidentifier():
                use.setdefault(e, []).append(len(entries))
            else:
                names_ = match.Ref.__init__.__globals__["_expr_names"](e)
                simple_cmp = (len(names_) == 2 and len(e.split()) == 3
                              and e.split()[1] in ("==", "!=", ">", "<="))
                for n in names_:
                    # a comparison has no short-circuit: both operands are always evaluated, so an
                    # operand of a comparison that is the transition's only guard entry is 'solo' too
                    use.setdefault(n, []).append(len(entries) if simple_cmp else 99)
    names = {n for n, ls in use.items() if all(x == 1 for x in ls)}
    provs = {}
    for c in prog["cbs"]:
        provs.setdefault(c.split(".", 1)[1], []).append(c)
    return {n for n in names if len(provs.get(n, [])) == 1}


def positions(sc, res):
    prog = sc["programs"][0]
    solo = solo_guards(prog)
    seen = set()
    out = []
    for r in res["trace"]:
        if r["k"] != "cb+":
            continue
        g = r.get("g")
        if g in ACTION:
            out.append({"c": r["c"], "ep": r["e"], "dp": r["dp"], "j": r["j"], "g": g})
        elif g in ("cond", "unless"):
            nm = r["c"].split(".", 1)[1]
            if (prog["cbs"].get(r["c"].split("/", 1)[1]) or {}).get("prop") and r["e"] == 0:
                continue  # a property guard is READ when names are resolved (construction): not an event
            if nm in solo and (r["c"], r["e"]) not in seen and r["dp"] == 0:
                seen.add((r["c"], r["e"]))
                out.append({"c": r["c"], "ep": r["e"], "dp": None, "j": None, "g": g})
    return out


def inject(sc, pos, cls):
    v = copy.deepcopy(sc)
    rules = v["beh"].setdefault(pos["c"], [])
    base = None
    for r in rules:
        if not r.get("_fault") and r.get("ep") is None and r.get("j") is None:
            base = r
            break
    new = dict(base) if base else {}
    new.update({"ep": pos["ep"], "raise": cls, "_fault": True})
    if pos["j"] is not None:
        new["j"] = pos["j"]
        new["dp"] = pos["dp"]
    new.pop("post", None)
    rules.insert(0, new)
    v.setdefault("c04", {})["mode"] = "single"
    v["c04"].setdefault("faults", []).append(pos)
    return v


def strip_faults(sc):
    b = copy.deepcopy(sc)
    for c in list(b["beh"]):
        b["beh"][c] = [r for r in b["beh"][c] if not r.get("_fault")]
        if not b["beh"][c]:
            del b["beh"][c]
    b.pop("c04", None)
    for op in b["ops"]:
        op.pop("timeout", None)
    return b


@register
class C04(Campaign):
    pid = "C04"
    level = "fault_enumeration"
    title = "A failing callback leaves a consistent, usable machine"
    technique = ("deterministic simulation with systematic fault injection: every callback invocation of a "
                 "fault-free run becomes a crash point; post-fault behaviour vs. reference interpreter")
    coarse = True
    quick_runs = 900
    thorough_runs = 3600
    chunk = 15
    fault_kinds = ["raise@validators", "raise@cond", "raise@unless", "raise@before", "raise@exit", "raise@on",
                   "raise@enter", "raise@after", "raise@initial-activation", "raise@nested-or-queued-event",
                   "raise x2 in consecutive operations", "raise BaseException (not an Exception) from a callback", "raise StopIteration / RuntimeError / AttributeError subclasses", "queued-event-not-allowed", "cancel@await (async)"]
    rule = ("one scenario = a generated machine with nested sends (rtc on/off, sync/async callbacks, "
            "machine/model/listener providers) and a 3-12 operation history; a fault-free run numbers its K "
            "callback invocations and the scenario is re-executed with an exception injected at position k "
            "(all k in the thorough tier -- a seeded sample of 40 when K > 40 --, a seeded sample of <=6 in the quick tier; plus double faults and "
            "async cancellation at a virtual time). evaluations = executed fault variants (+ the fault-free "
            "run); non-trivial = the injected fault actually fired and at least one probe operation followed; "
            "distinct = distinct (trace digest) among those.")
    assumptions = [
        "only behaviour from the failing operation on is judged; the fault-free prefix must agree with the "
        "reference or the scenario is not judged (it is another property's business)",
        "in the failing group instance siblings of the raising callback may or may not have run; async "
        "orphans may finish late and their nested sends are suppressed (DESIGN §4.3)",
        "guard faults only on guards that are the single guard entry of every transition using them "
        "(otherwise short-circuiting makes 'was it evaluated' engine-dependent)",
        "rtc=False: no fault whose group instance also holds a sending sibling (order inside a group is "
        "unspecified, so the outcome would be ambiguous)",
        "after a cancellation the expected state is the state the cancelled callback saw when it began "
        "(source up to `on`, target in enter/after: C02's view clause is assumed)",
    ]

    def knobs(self, rnd, tier):
        return gen.knobs(async_modes=ASYNC_MODES, drivers=["sync", "sync", "inloop"], senders=(0, 3),
                         sends_per=(1, 2), sends_jlt=(1, 2), allow=[False, False, True],
                         rtc=[True, True, False], p_validator=0.35, p_unknown_event=0.05, n_ops=(3, 10),
                         p_action=0.45, p_state_action=0.4, p_conv=0.3, states=(2, 4), extra_trans=(0, 4),
                         p_cond=0.4, p_unless=0.2, p_prop_guard=0.15, p_expr_guard=0.15)

    def scenario(self, rnd, tier):
        sc = super().scenario(rnd, tier)
        sc["c04"] = {"mode": "all" if tier == "thorough" else "sample", "pick": rnd.randrange(1 << 30)}
        prog = sc["programs"][0]
        if rnd.random() < 0.25:
            # a comparison of two guards as the only guard entry of a transition: no short-circuit, both
            # operands are evaluated on every attempt (and either of them may fail)
            free = [t for t in prog["trans"] if not t.get("cond") and not t.get("unless")]
            if free:
                t = rnd.choice(free)
                roles = ["machine", "model"] + list(sc["ops"][0].get("listeners", []))
                names = []
                for x in "ab":
                    nm = f"gc_{x}"
                    role = rnd.choice(roles)
                    prog["cbs"][f"{role}.{nm}"] = {"group": "cond", "sig": gen.basic_sig(rnd)}
                    if any(m_.get("async") for m_ in prog["cbs"].values()) and rnd.random() < 0.5:
                        prog["cbs"][f"{role}.{nm}"]["async"] = True
                    sc["gv"][f"{prog['name']}/{role}.{nm}"] = [rnd.getrandbits(len(prog["states"]))
                                                               for _ in range(len(sc["ops"]))]
                    names.append(nm)
                t["cond"] = [f"{names[0]} {rnd.choice(['==', '!=', '>', '<='])} {names[1]}"]
        # one more operation at the end so that a fault in the last generated op still has a probe
        sc["ops"].append({"op": "send", "inst": "A", "event": rnd.choice(prog["events"]), "probe": True})
        for g in sc["gv"].values():
            g.append(g[-1])
        return sc

    # ------------------------------------------------------------------ judging one execution
    def judge(self, sc, res):
        m = match.Matcher(sc, res, coarse=True)
        findings = m.run(stop_at_first=False)
        ambiguous = getattr(m.ref, "ambiguous", False)
        fault_op = None
        for n in sorted(m.exp_by_op):
            if m.exp_by_op[n].get("exc") is not None:
                fault_op = n
                break
        viol = []
        unarmed = []
        for f in findings:
            kind = f["kind"]
            if fault_op is None or f["op"] is None or f["op"] < fault_op:
                unarmed.append(kind)
                if kind in self.DESYNC:
                    break
                continue
            clause = None
            if kind == "op_exc":
                clause = "C04.exception_reaches_caller" if f["op"] == fault_op else "C04.probe"
            elif kind in ("op_state", "model_field"):
                clause = "C04.state_after_failure" if f["op"] == fault_op else "C04.probe"
            elif kind.startswith("seq."):
                clause = "C04.sequence_after_failure" if f["op"] == fault_op else "C04.probe"
            if clause is None:
                unarmed.append(kind)
                continue
            d = dict(f["detail"])
            d["fault_op"] = fault_op
            d["fault"] = m.exp_by_op[fault_op].get("exc")
            viol.append({"clause": clause, "kind": kind, "op": f["op"], "detail": d})
            break
        return m, viol, unarmed, fault_op, ambiguous

    def evaluate(self, sc):
        mode = (sc.get("c04") or {}).get("mode", "sample")
        import random

        counters = {}

        def bump(k, n=1):
            counters[k] = counters.get(k, 0) + n

        base = strip_faults(sc)
        bres = self.execute(base)
        bm, bviol, bun, bfault, bamb = self.judge(base, bres)
        evals = 1
        if bfault is not None:
            bump("fault.fault_in_base_run(queued-event-not-allowed|nested TNA)")
        out = {"violations": [], "unarmed": list(bun), "mstats": bm.stats, "res": bres, "evals": 1,
               "c04": counters, "keys": []}
        if bviol:
            out["violations"] = bviol
            out["scenario"] = base
            return out
        if any(u in self.DESYNC for u in bun):
            bump("probe.base_not_in_step_with_reference(skipped)")
            return out
        if mode == "single":
            variants = [sc]
        else:
            pos = positions(base, bres)
            rnd = random.Random((sc.get("c04") or {}).get("pick", 0))
            if mode == "sample":
                rnd.shuffle(pos)
                pos = pos[:6]
            elif len(pos) > 40:
                # long fan-out histories: a seeded sample of 40 crash points keeps one scenario
                # within the per-scenario watchdog under full load
                rnd.shuffle(pos)
                pos = pos[:40]
                bump("probe.crash_points_sampled_40_of_many")
            variants = []
            classes = ["SimFault", "SimLookup", "SimValue", "SimBaseFault", "SimRuntime", "SimAttr", "SimType"]
            if not any(m_.get("async") or m_.get("awaitable") for m_ in base["programs"][0]["cbs"].values()):
                classes = classes + ["SimStop", "SimStop"]
            for p in pos:
                cls = rnd.choice(classes + (["SimType", "SimType"] if p["g"] in ("cond", "unless") else []))
                variants.append(inject(base, p, cls))
            # double faults: two crash points in different operations
            allp = positions(base, bres)
            for _ in range(1 if mode == "sample" else 3):
                if len(allp) >= 2:
                    a, b = rnd.sample(allp, 2)
                    if a["ep"] != b["ep"]:
                        v = inject(inject(base, a, "SimFault"), b, "SimValue")
                        v["c04"]["double"] = True
                        variants.append(v)
            # async cancellation at a virtual time
            cv = self.cancel_variants(base, bres, rnd, mode)
            variants.extend(cv)
        last = None
        for v in variants:
            res = self.execute(v)
            evals += 1
            m, viol, un, fop, amb = self.judge(v, res)
            last = res
            fired = res["stats"].get("raises", 0)
            cancelled = sum(1 for r in res["trace"] if r["k"] == "cb-" and r["out"][0] == "exc"
                            and r["out"][1].get("cls") == "CancelledError")
            if amb:
                bump("probe.ambiguous_variant_skipped")
                continue
            if v["c04"].get("cancel"):
                if cancelled:
                    bump("fault.cancel@await")
                else:
                    bump("probe.cancel_timeout_did_not_fire")
            for p in v["c04"].get("faults", []):
                if fired:
                    bump(f"fault.raise@{p['g']}")
                    if p["ep"] == 0:
                        bump("fault.raise@initial-activation-or-constructor")
                    if p.get("dp"):
                        bump("fault.raise@depth-first-nested-event")
            if v["c04"].get("double") and fired >= 2:
                bump("fault.raise-x2")
            if fired or cancelled:
                nprobe = len(v["ops"]) - 1 - (fop if fop is not None else len(v["ops"]))
                if nprobe > 0 or cancelled:
                    out["keys"].append(res["digest"])
                bump("probe.probe_ops_after_fault", max(nprobe, 0))
            out["unarmed"].extend(un)
            if viol:
                out["violations"] = viol
                out["scenario"] = v
                out["res"] = res
                break
        out["evals"] = evals
        if last is not None and not out["violations"]:
            out["res"] = last
        return out

    def cancel_variants(self, base, bres, rnd, mode):
        prog = base["programs"][0]
        if base.get("driver") != "inloop" or not any(m.get("async") for m in prog["cbs"].values()):
            return []
        # distinct await intervals of the fault-free run: begin times of delayed callbacks
        spans = []
        begins = {r["q"]: r for r in bres["trace"] if r["k"] == "cb+"}
        opstart = {}
        for r in bres["trace"]:
            if r["k"] == "cb+" and r["e"] not in opstart and r.get("t") is not None:
                opstart[r["e"]] = r["t"]
        for r in bres["trace"]:
            if r["k"] == "cb-" and r["out"][0] == "ret":
                b = begins.get(r["r"])
                if b is None or b.get("t") is None or b["e"] == 0:
                    continue
                rule = None
                for x in base["beh"].get(b["c"], []):
                    rule = x
                    break
                d = (rule or {}).get("pre") or 0
                if d and d > 0:
                    spans.append((b["e"], b["t"] - opstart.get(b["e"], b["t"]) + d / 2.0))
        rnd.shuffle(spans)
        out = []
        for ep, t in spans[: (2 if mode == "sample" else 6)]:
            v = copy.deepcopy(base)
            if v["ops"][ep]["op"] != "send":
                continue
            v["ops"][ep]["timeout"] = t
            v["c04"] = {"mode": "single", "cancel": True, "faults": []}
            out.append(v)
        return out

    def nontrivial(self, sc, ev):
        return None

    def counters(self, sc, ev):
        c = dict(ev.get("c04", {}))
        c["probe.scenarios"] = 1
        return c
