"""C05: async callbacks behave exactly like their synchronous counterparts.

Every scenario exists twice: the *sync twin* (all plain functions, synchronous driver) and an
*async rendering* in which a seeded subset of the callbacks are coroutines with seeded virtual
delays, driven from synchronous code without a loop (the library's facade gets a virtual loop),
from inside a running loop, or from threads in turn.  The twin must agree with the reference model
(otherwise the scenario is another property's business); any deviation of the async rendering from
the same reference is then an async-only deviation, i.e. a violation of C05.
"""

import copy

from .. import gen
from .. import match
from ..campaign import Campaign
from ..campaign import register

KINDS = {
    "op_state": "C05.twin_state", "model_field": "C05.twin_state", "op_exc": "C05.twin_exception",
    "op_result": "C05.twin_result", "seq.extra": "C05.twin_phases", "seq.missing": "C05.twin_phases",
    "seq.nested_inside": "C05.twin_phases", "barrier": "C05.awaited_before_next_phase",
    "guard_barrier": "C05.guard_awaited_before_next_phase", "unfinished": "C05.awaited_before_return",
    "view": "C05.twin_arguments", "nested_ret": "C05.twin_result", "cb_raised": "C05.twin_exception",
}


def twin(sc):
    t = copy.deepcopy(sc)
    for p in t["programs"]:
        for m in p["cbs"].values():
            m.pop("async", None)
            m.pop("awaitable", None)
    for rules in t["beh"].values():
        for r in rules:
            r.pop("pre", None)
            r.pop("post", None)
    t["driver"] = "sync"
    t["perm_seed"] = 0
    return t


@register
class C05(Campaign):
    pid = "C05"
    title = "Async callbacks behave exactly like their synchronous counterparts"
    technique = ("deterministic simulation, differential: sync twin vs. async rendering of the same scenario "
                 "under seeded virtual delays / guard start order, arbitrated by the reference interpreter")
    quick_runs = 2000
    thorough_runs = 40000
    fault_kinds = ["async-callback-delay (0 .. 1 h virtual)", "async-guard-start-permutation",
                   "subset-of-callbacks-async (all/one/mixed/guards/actions)", "raise@validator", "raise@action",
                   "driver: sync facade / in-loop / threads-in-turn", "guards inside boolean expressions"]
    rule = ("one run = one scenario from the C01-C04 generators rendered twice: all-sync twin and an async "
            "rendering (seeded subset of coroutine callbacks, seeded delays and guard start order, seeded "
            "driver). Both are matched against the reference; a run counts when the twin is in step with the "
            "reference. Non-trivial = the async rendering really ran on coroutines (>=1 coroutine callback "
            "invoked) and processed >=1 transition; distinct = distinct async trace digests among those.")
    assumptions = [
        "the sync twin must agree with the reference, otherwise the run is not judged here",
        "order inside a group is unconstrained; the number of guards evaluated is unconstrained",
        "nested sends only from coroutine callbacks in the async rendering (a plain function cannot await)",
        "both twins use rtc=True (the async engine supports only run-to-completion)",
    ]

    def knobs(self, rnd, tier):
        return gen.knobs(async_modes=["none"], drivers=["sync"], senders=(0, 2), rtc=[True],
                         allow=[False, False, True], p_validator=0.3, p_expr_guard=0.12 if rnd.random() < 0.5 else 0.0,
                         n_ops=(3, 14), p_cond=0.5, p_unless=0.3, p_guard_any_value=0.4)

    def scenario(self, rnd, tier):
        sc = super().scenario(rnd, tier)
        prog = sc["programs"][0]
        name = prog["name"]
        n = len(sc["ops"])
        # faults shared by both twins
        cands = sorted(c for c, m in prog["cbs"].items() if m["group"] not in ("cond", "unless"))
        if cands and rnd.random() < 0.4:
            c = rnd.choice(cands)
            sc["beh"].setdefault(f"{name}/{c}", []).insert(
                0, {"ep": rnd.randrange(1, n), "j": 0, "dp": 0,
                    "raise": rnd.choice(["SimFault", "SimLookup", "SimBaseFault", "SimRuntime", "SimAttr"])})
        # the async rendering
        senders = [c.split("/", 1)[1] for c, rules in sc["beh"].items() if any(r.get("sends") for r in rules)]
        mode = rnd.choice(["all", "one", "mixed", "mixed", "guards", "actions"])
        gen.set_async(rnd, prog, mode, must_async=senders)
        if not prog["cbs"]:
            # (1 program in ~30000 has no callback at all: give it one, there is nothing to compare otherwise)
            prog["cbs"]["machine.on_transition"] = {"group": "on", "sig": [gen.P("event")]}
        if not any(m.get("async") for m in prog["cbs"].values()):
            prog["cbs"][rnd.choice(sorted(prog["cbs"]))]["async"] = True
            for c in senders:
                prog["cbs"][c]["async"] = True
        for c, m in sorted(prog["cbs"].items()):
            if m.get("async") and rnd.random() < 0.7:
                rules = sc["beh"].setdefault(f"{name}/{c}", [{}])
                for r in rules:
                    d = rnd.choice(gen.DELAYS)
                    if d is not None:
                        r["pre"] = d
                    if rnd.random() < 0.3:
                        d = rnd.choice(gen.DELAYS)
                        if d is not None:
                            r["post"] = d
        # coroutine functions behind a signature-preserving decorator that publishes ``__signature__``
        for c, m in sorted(prog["cbs"].items()):
            if m.get("async") and not m.get("prop") and not m.get("style") and rnd.random() < 0.2:
                m["wrapped"] = "sig"
        # plain functions that return an awaitable (the engine awaits what a callback returns)
        for c, m in sorted(prog["cbs"].items()):
            if not m.get("async") and m["group"] not in ("cond", "unless") and rnd.random() < 0.15:
                m["awaitable"] = True
        # listeners attached after construction (both twins alike); the machine stays on the async
        # engine through its construction-time providers
        ls = list(prog["listeners"])
        rnd.shuffle(ls)
        from .storage import names_ok

        late = []
        for role in ls:
            rest = [x for x in prog["listeners"] if x != role and x not in late]
            ctor_roles = ["machine", "model"] + rest
            keeps_async = any(m.get("async") for c, m in prog["cbs"].items() if c.split(".", 1)[0] in ctor_roles)
            uses_expr = any(not e.isidentifier() for t in prog["trans"]
                            for e in list(t.get("cond", [])) + list(t.get("unless", [])))
            provides_unless = any(c.split(".", 1)[1] in t.get("unless", []) for t in prog["trans"]
                                  for c in prog["cbs"] if c.startswith(role + "."))
            if rnd.random() < 0.3 and names_ok(prog, ctor_roles) and keeps_async and not uses_expr \
                    and not provides_unless:
                late.append(role)
        if late:
            new = sc["ops"][0]
            new["listeners"] = [x for x in new.get("listeners", []) if x not in late]
            out = [new]
            pending = list(late)
            for op in sc["ops"][1:]:
                if pending and rnd.random() < 0.4:
                    out.append({"op": "add_listener", "inst": "A", "listeners": [pending.pop()]})
                out.append(op)
            for role in pending:
                out.append({"op": "add_listener", "inst": "A", "listeners": [role]})
            shift = {}
            j = 0
            for i_, op in enumerate(out):
                if op["op"] != "add_listener":
                    shift[j] = i_
                    j += 1
            for rules in sc["beh"].values():
                for r in rules:
                    if r.get("ep") is not None:
                        r["ep"] = shift.get(r["ep"], r["ep"])
            for c, g in sc["gv"].items():
                g2 = []
                j = 0
                for op in out:
                    if op["op"] == "add_listener":
                        g2.append(g[min(j, len(g) - 1)])
                    else:
                        g2.append(g[min(j, len(g) - 1)])
                        j += 1
                sc["gv"][c] = g2
            sc["ops"] = out
            sc["late_listeners"] = late
        sc["driver"] = rnd.choice(["sync", "inloop", "inloop", "threads_in_turn"])
        sc["perm_seed"] = rnd.randrange(1 << 30)
        return sc

    def evaluate(self, sc):
        t = twin(sc)
        tres = self.execute(t)
        tm = match.Matcher(t, tres)
        tf = tm.run(stop_at_first=True)
        out = {"violations": [], "unarmed": [], "mstats": tm.stats, "res": tres, "evals": 1, "c05": {}}
        if tf:
            out["unarmed"] = ["twin:" + tf[0]["kind"]]
            out["c05"]["probe.twin_not_in_step_with_reference(skipped)"] = 1
            return out
        res = self.execute(sc)
        m = match.Matcher(sc, res)
        findings = m.run(stop_at_first=False)
        out.update({"res": res, "mstats": m.stats, "evals": 2})
        for f in findings:
            clause = KINDS.get(f["kind"])
            if clause is None and f["kind"].startswith("bound."):
                clause = "C05.twin_arguments"
            if clause is None:
                out["unarmed"].append(f["kind"])
                continue
            out["violations"].append({"clause": clause, "kind": f["kind"], "op": f["op"], "detail": f["detail"]})
            break
        if not out["violations"] and not any(u in self.DESYNC for u in out["unarmed"]):
            v = self.guard_order(m)
            if v:
                out["violations"].append(v)
        if not out["violations"] and res["never_awaited"]:
            out["violations"].append({"clause": "C05.never_awaited", "kind": "never_awaited", "op": None,
                                      "detail": {"warnings": res["never_awaited"][:3]}})
        return out

    @staticmethod
    def guard_order(m):
        """Within one candidate the guard entries are evaluated one at a time, in declaration order, and
        evaluation stops at the first entry that fails -- on the async engine exactly as on the sync one
        (checked where the reference can name the order, see RefInst.guard_order)."""
        def gather(execs, acc):
            for ex in execs:
                for it in ex.get("items", []):
                    if it.get("g") == "guards":
                        acc.append(it)
                    for mem in it.get("members", []):
                        gather(mem.get("nested") or [], acc)
            return acc

        for n in sorted(m.exp_by_op):
            exp = m.exp_by_op[n]
            if exp.get("exc") is not None:
                continue
            items = gather(exp.get("execs") or [], [])
            uses = {}
            for it in items:
                for c_ in {mm["c"] for mm in it.get("members", [])}:
                    uses[c_] = uses.get(c_, 0) + 1
            for it in items:
                # (a guard that is evaluated in several candidate windows of one operation -- other
                # candidates, or the same candidate for a second queued event -- cannot be attributed
                # to one of them with certainty: such windows are left out)
                if it.get("order") is None or it.get("failing") or "_seen" not in it:
                    continue
                if any(uses[mm["c"]] > 1 for mm in it.get("members", [])):
                    continue
                if it["_seen"] != it["order"]:
                    return {"clause": "C05.twin_phases", "kind": "guard_order", "op": n,
                            "detail": {"event": it.get("ev"), "state": it.get("src"), "evaluated": it["_seen"],
                                       "expected_in_declaration_order": it["order"]}}
        return None

    def nontrivial(self, sc, ev):
        res = ev["res"]
        prog = sc["programs"][0]
        asyncs = {f"{prog['name']}/{c}" for c, m in prog["cbs"].items() if m.get("async")}
        ran = any(r["k"] == "cb+" and r["c"] in asyncs for r in res["trace"])
        if ran and ev.get("evals", 1) == 2:
            return res["digest"]
        return None

    def counters(self, sc, ev):
        c = dict(ev.get("c05", {}))
        st = ev["res"]["stats"]
        c["fault.virtual_delays"] = st.get("delays", 0)
        c["fault.async_guard_start_permutations"] = st.get("perms", 0)
        c["fault.raises"] = st.get("raises", 0)
        c["probe.driver_" + sc.get("driver", "sync")] = 1
        if sc.get("late_listeners"):
            c["fault.late-listener (machine already on the async engine)"] = len(sc["late_listeners"])
        if any(m_.get("awaitable") for m_ in sc["programs"][0]["cbs"].values()):
            c["probe.plain_function_returning_awaitable"] = 1
        prog = sc["programs"][0]
        if any(not e.isidentifier() for t in prog["trans"] for e in t.get("cond", [])):
            c["probe.guard_expressions"] = 1
        return c

    def signature(self, v, sc):
        sig = super().signature(v, sc)
        prog = sc["programs"][0]
        d = v.get("detail", {})
        cb = d.get("cb")
        if cb:
            meta = prog["cbs"].get(cb.split("/", 1)[1], {})
            sig["cb_group"] = meta.get("group")
        # does the program use coroutine guards inside boolean expressions / several providers?
        exprs = [e for t in prog["trans"] for e in list(t.get("cond", [])) + list(t.get("unless", []))
                 if not e.isidentifier()]
        agn = {c.split(".", 1)[1] for c, m in prog["cbs"].items()
               if m.get("async") and m["group"] in ("cond", "unless")}
        sig["async_guard_in_expression"] = any(n in agn for e in exprs for n in match_names(e))
        provs = {}
        for c in prog["cbs"]:
            provs.setdefault(c.split(".", 1)[1], []).append(c)
        sig["async_guard_multi_provider"] = any(len(provs[n]) > 1 for n in agn)
        return sig


def match_names(expr):
    from ..ref import _expr_names

    return _expr_names(expr)
