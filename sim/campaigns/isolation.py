"""C16: machines are isolated from other instances, classes and definitions.

Several programs live in one process: unrelated classes, look-alike classes (same python class and
method names in another module, different parameter kinds / coroutine-ness) and subclasses that add
states and transitions from inherited states.  The PRNG interleaves their definition, instantiation
and event histories.  For every instance the projected trace of the interleaved run must equal the
trace of the same instance's operations executed *solo* (nothing else defined or driven), and the
solo run must agree with the reference (otherwise it is another property's business).
"""

import copy

from .. import gen
from .. import match
from ..campaign import Campaign
from ..campaign import register
from ..render import pyname


def make_lookalike(rnd, prog, name, module):
    p2 = copy.deepcopy(prog)
    p2["name"] = name
    p2["module"] = module
    p2["pyname"] = pyname(prog)
    changed = 0
    for c, m in sorted(p2["cbs"].items()):
        sig = m.get("sig", [])
        r = rnd.random()
        if r < 0.45:
            pks = [q for q in sig if q["kind"] == "pk" and "default" in q]
            if pks and not any(q["kind"] in ("var", "ko") for q in sig):
                pks[-1]["kind"] = "ko"
                changed += 1
        elif r < 0.75:
            if m.get("async"):
                m.pop("async")
            else:
                m["async"] = True
            changed += 1
    return p2, changed


def make_subclass(rnd, base, name, module):
    s = {"name": name, "module": module, "pyname": "Sub" + name, "base_name": pyname(base),
         "base_module": base["module"], "model": dict(base["model"]), "listeners": list(base["listeners"]),
         "states": [dict(x, inherited=True) for x in base["states"]],
         "trans": [dict(t, inherited=True) for t in base["trans"]],
         "events": list(base["events"]), "cbs": {}}
    if base.get("any"):
        s["any"] = [dict(a, inherited=True) for a in base["any"]]
    for c, m in base["cbs"].items():
        if c.startswith("machine."):
            s["cbs"][c] = dict(copy.deepcopy(m), inherited=True, full=f"{base['name']}/{c}")
        else:
            s["cbs"][c] = copy.deepcopy(m)
    finals = {x["id"] for x in base["states"] if x.get("final")}
    srcs = [x["id"] for x in base["states"] if x["id"] not in finals]
    new_ids = [f"n{i}" for i in range(rnd.randint(1, 2))]
    for nid in new_ids:
        s["states"].append({"id": nid, "initial": False, "final": False})
    ev = rnd.choice(["jump", "jump", rnd.choice(base["events"])])
    s["trans"].append({"src": rnd.choice(srcs), "dst": new_ids[0], "events": [ev]})
    for nid in new_ids:
        s["trans"].append({"src": nid, "dst": rnd.choice([x["id"] for x in base["states"]] + new_ids),
                           "events": [rnd.choice(["jump", ev])]})
    if len(new_ids) > 1:
        s["trans"].append({"src": new_ids[0], "dst": new_ids[1], "events": ["jump2"]})
    for t in s["trans"]:
        for e in t["events"]:
            if e not in s["events"]:
                s["events"].append(e)
    if rnd.random() < 0.5:
        s["cbs"]["machine.on_jump"] = {"group": "on", "sig": [gen.P("event"), gen.P("source")]}
    return s


def make_enum_decl(rnd, prog, enum_name, use_inst, module=None):
    """Declare the program's states with ``States.from_enum`` over an Enum whose members are the state
    ids (the Enum is defined in the program's own module, or imported from ``module``)."""
    members = [[s["id"], n + 1] for n, s in enumerate(prog["states"])]
    if module is None:
        prog["enums"] = [{"name": enum_name, "members": members}]
    else:
        prog["enum_import"] = [module, enum_name]
    prog["from_enum"] = {"enum": enum_name, "use_enum_instance": use_inst}
    for n, s in enumerate(prog["states"]):
        s["value"] = {"$en": [enum_name, s["id"]]} if use_inst else n + 1
        s.pop("name", None)
        # from_enum builds the State objects itself: no enter=/exit= arguments
        for g in ("enter", "exit"):
            if s.get(g):
                keep = [c for c in s[g] if prog["cbs"].get(f"machine.{c}", {}).get("style") == "decorator"]
                s[g] = keep


def make_collision(rnd, victim, k, name):
    """An unrelated class one of whose STATE IDS equals the name of a callback / attribute the victim
    class defines on the machine itself (names are only unique within a class)."""
    p = gen.gen_program(rnd, k, name=name)
    names = sorted({c.split(".", 1)[1] for c in victim["cbs"] if c.startswith("machine.")})
    names = [n for n in names if n not in ("on_enter_state", "on_exit_state", "before_transition",
                                           "on_transition", "after_transition")]
    if not names:
        return p
    new_id = rnd.choice(names)
    old = rnd.choice([s_["id"] for s_ in p["states"]])
    for s_ in p["states"]:
        if s_["id"] == old:
            s_["id"] = new_id
    for t in p["trans"] + p.get("any", []):
        if t["src"] == old:
            t["src"] = new_id
        if t["dst"] == old:
            t["dst"] = new_id
    for c in [c for c in p["cbs"] if c.split(".", 1)[1] in (f"on_enter_{old}", f"on_exit_{old}")]:
        del p["cbs"][c]
    # the neighbour must not itself define a callback with the colliding name
    for c in [c for c in p["cbs"] if c.split(".", 1)[1] == new_id]:
        del p["cbs"][c]
    from ..shrink import prune_names

    prune_names(p)
    p["collides_with"] = new_id
    return p


def project(sc, res, tag):
    """What instance ``tag`` did and saw: operation outcomes and callback invocations, in order."""
    out = []
    mine = {n for n, o in enumerate(sc["ops"]) if o.get("inst") == tag}
    for r in res["trace"]:
        k = r["k"]
        if k == "cb+" and r["i"] == tag:
            out.append(["cb", r["c"], r["j"], r["dp"], match.canon(r["b"]), match.canon(r["sv"])])
        elif k == "cb-" and r.get("c") and any(True for _ in [0]):
            pass
        elif k == "op-" and r["n"] in mine:
            o = r["out"]
            out.append(["op", sc["ops"][r["n"]]["op"], match.canon(o.get("res")), match.canon(o.get("exc")),
                        match.canon(o.get("obs"))])
    return out


def solo(sc, tag):
    """The same instance's operations with nothing else defined or driven."""
    s = copy.deepcopy(sc)
    inst_prog = next(o["prog"] for o in s["ops"] if o["op"] == "new" and o["inst"] == tag)
    needed = {inst_prog}
    p = s["programs"][inst_prog]
    if p.get("base_module") or p.get("enum_import"):
        for i, q in enumerate(s["programs"]):
            if q["module"] in (p.get("base_module"), (p.get("enum_import") or [None])[0]):
                needed.add(i)
    for i, q in enumerate(s["programs"]):
        if i not in needed:
            q["deferred"] = True  # never loaded
    for n, op in enumerate(s["ops"]):
        if op["op"] == "define":
            if op["prog"] not in needed:
                s["ops"][n] = {"op": "noop"}
        elif op.get("inst") != tag:
            s["ops"][n] = {"op": "noop"}
    for k_ in ("mode", "thread_of", "tplan", "tseed"):
        s.pop(k_, None)
    return s


def _run_threads(sc, plan, record):
    """One thread per instance executes that instance's operations (definition of its class included);
    the baton scheduler pre-empts at line granularity anywhere in the library."""
    import gc
    import warnings

    from .. import run as runmod
    from ..simrt import SIM
    from ..vthreads import ThreadSim

    r = runmod.Runner(sc)
    with warnings.catch_warnings(record=True):
        warnings.simplefilter("always")
        try:
            r.setup()
            ts = ThreadSim(runmod.REPO, plan=plan)
            ts.record = record
            SIM.threads = ts
            streams = {}
            for n, op in enumerate(sc["ops"]):
                streams.setdefault(sc["thread_of"][n], []).append((n, op))

            def mk(items):
                def body():
                    SIM.tl.own_epoch = True
                    for n, op in items:
                        r.step_sync(n, op)
                return body

            for name in sorted(streams):
                ts.spawn(name, mk(streams[name]))
            ts.run()
            SIM.threads = None
            if ts.errors:
                nm, e = sorted(ts.errors.items())[0]
                raise runmod.HarnessError(f"thread {nm} failed: {type(e).__name__}: {e}")
            trace = list(SIM.trace)
            stats = dict(SIM.stats)
            stats["switches"] = len(ts.switches)
            stats["line_steps"] = ts.step
        finally:
            SIM.threads = None
            gc.collect()
            r.teardown()
    return {"trace": trace, "outs": r.outs, "stats": stats, "digest": runmod.digest(trace), "never_awaited": [],
            "per_thread": ts.per_thread if record else None, "switch_sites": dict(ts.sites),
            "switches": list(ts.switches)}


def execute_threads(sc):
    import random

    from .. import run as runmod
    from ..vthreads import draw_plan

    if sc.get("tplan") is None:
        dry = runmod.isolated(_run_threads, sc, [], True)
        rnd = random.Random(sc["tseed"])
        names = sorted(dry["per_thread"])
        sc["tplan"] = draw_plan(rnd, dry["per_thread"], names, sc.get("nswitch", 3), set(), ())
    return runmod.isolated(_run_threads, sc, sc["tplan"], False)


@register
class C16(Campaign):
    pid = "C16"
    title = "Machines are isolated from other instances, classes and definitions"
    technique = ("deterministic simulation, differential: seeded interleaving of definition / instantiation / "
                 "event histories of 2-4 co-resident programs vs. the same instance run solo; reference interpreter")
    quick_runs = 2000
    thorough_runs = 30000
    fault_kinds = ["preempt@line anywhere in the library (thread variant: one thread per instance)",
                   "neighbour-definition@op (unrelated class)", "neighbour-definition@op (unrelated class whose state id "
                   "equals a callback name of the victim class)", "neighbour-definition@op (look-alike class: same class / "
                   "method / variable names)", "neighbour-definition@op (subclass adding transitions from inherited states)",
                   "second instance of the same class interleaved", "neighbour driven between two events",
                   "instances of one class whose listener objects carry different instance-level callbacks",
                   "instance of the same class built without the model / listeners that provide its callback names",
                   "machine class with value-based __eq__/__hash__ (all instances compare equal)"]
    rule = ("one run = 2-4 programs in one process (unrelated, look-alike in another module, subclass extending "
            "inherited states, second instance of the same class) whose define / instantiate / send operations are "
            "interleaved by the PRNG; for every instance the projection of the interleaved trace (operation results, "
            "exceptions, observed state / allowed events, callback invocations with bound arguments) is compared with "
            "the same operations run solo; the solo run is compared with the reference. Non-trivial = operations of "
            ">=2 instances really alternate and both ran callbacks; distinct = distinct digests of the interleaved run.")
    assumptions = [
        "the solo run of an instance must agree with the reference, otherwise that instance is not judged",
        "process-global caches are cleared only between runs, never inside one",
    ]

    def scenario(self, rnd, tier):
        k = gen.knobs(p_validator=0.15, listeners=(0, 1), rtc=[True, True, False], allow=[False, True],
                      async_modes=["none"], drivers=["sync"], p_unknown_event=0.05, n_ops=(3, 9), p_ret=0.4,
                      states=(2, 4), extra_trans=(0, 4), p_from_any=0.15)
        base = gen.gen_program(rnd, k, name="P0")
        for c, m in base["cbs"].items():
            if rnd.random() < 0.25:
                m["async"] = True
        base["machine_eq"] = rnd.random() < 0.15
        async_role = None
        if rnd.random() < 0.15:
            # the only coroutine callbacks of the class live on ONE listener class (naming-convention
            # callbacks, so nothing has to be resolved on it): instances that attach it run on the async
            # engine, instances that do not stay synchronous
            async_role = "LA"
            base["listeners"].append(async_role)
            for m in base["cbs"].values():
                m.pop("async", None)
            for nm, grp in rnd.sample([("after_transition", "after"), ("on_enter_state", "enter"),
                                       ("before_transition", "before")], rnd.randint(1, 2)):
                base["cbs"][f"{async_role}.{nm}"] = {"group": grp, "sig": [gen.P("event"), gen.P("kw", "varkw")],
                                                     "async": True}
        programs = [base]
        kinds = []
        enum_mode = async_role is None and rnd.random() < 0.12
        if enum_mode:
            # the class takes its states from an Enum (States.from_enum); a neighbour class is declared
            # from the SAME Enum: each class must get State objects of its own
            enum_use_inst = rnd.random() < 0.5
            make_enum_decl(rnd, base, "P0_E", enum_use_inst)
        for i in range(rnd.randint(1, 3)):
            kind = rnd.choice(["unrelated", "lookalike", "lookalike", "lookalike", "subclass", "same_class",
                               "same_class", "collision", "collision"])
            if enum_mode:
                kind = rnd.choice(["enum_twin", "enum_twin", "same_class", "unrelated"])
            if kind == "enum_twin":
                n_ = len(base["states"])
                p = gen.gen_program(rnd, dict(k, states=(n_, n_)), name=f"E{i}")
                make_enum_decl(rnd, p, "P0_E", enum_use_inst if rnd.random() < 0.8 else not enum_use_inst,
                               module=base["module"])
                programs.append(p)
            elif kind == "collision":
                programs.append(make_collision(rnd, base, k, f"X{i}"))
                # ... and another instance of the victim class built at some later point
                programs.append(None)
                kinds.append(kind)
                kind = "same_class"
            elif kind == "unrelated":
                p = gen.gen_program(rnd, k, name=f"U{i}")
                programs.append(p)
            elif kind == "lookalike":
                p, ch = make_lookalike(rnd, base, f"K{i}", f"simgen_k{i}")
                programs.append(p)
            elif kind == "subclass":
                programs.append(make_subclass(rnd, base, f"S{i}", f"simgen_s{i}"))
            else:
                programs.append(None)  # another instance of the base class
            kinds.append(kind)
        insts = []
        streams = []
        tags = "ABCDEFGH"
        real = []
        for i, p in enumerate(programs):
            if p is None:
                pi = 0
            else:
                real.append(p)
                pi = len(real) - 1
            tag = tags[i]
            pr = real[pi]
            is_async = any(m.get("async") for m in pr["cbs"].values())
            ops = gen.gen_ops(rnd, pr, k, inst=tag)
            ops[0]["prog"] = pi
            if is_async:
                ops[0]["rtc"] = True
            if pi == 0 and async_role is not None:
                # instances of the class alternate between attaching that listener and not attaching it
                n_same = sum(1 for q in programs[:i + 1] if q is None or q is base)
                if (n_same + (1 if base["name"] < async_role else 0)) % 2 == 0:
                    ops[0]["listeners"] = [x for x in ops[0].get("listeners", []) if x != async_role]
                else:
                    ops[0]["listeners"] = [x for x in ops[0].get("listeners", []) if x != async_role] + [async_role]
                    ops[0]["rtc"] = True
            if pi == 0 and rnd.random() < 0.3:
                # instances of one class that start in different states (start_value)
                st_ = rnd.choice(pr["states"])
                ops[0]["start_value"] = st_["id"] if st_.get("value") is None else st_["value"]
            if p is None and rnd.random() < 0.3:
                # an instance of the victim class built WITHOUT the user's model and listeners: if the class
                # refers to names only they provide, the constructor must refuse it (InvalidDefinition) --
                # whatever other, complete instances of the class exist
                ops[0]["model"] = False
                ops[0]["listeners"] = []
            st = []
            if p is not None and i > 0:
                pr["deferred"] = True
                st.append({"op": "define", "prog": pi})
            st.extend(ops)
            streams.append(st)
            insts.append(tag)
        # interleave, keeping each stream's order
        ops = []
        idx = [0] * len(streams)
        while any(idx[i] < len(streams[i]) for i in range(len(streams))):
            cand = [i for i in range(len(streams)) if idx[i] < len(streams[i])]
            i = rnd.choice(cand)
            ops.append(streams[i][idx[i]])
            idx[i] += 1
        # a subclass can only be defined after its base; the base program is loaded at start
        beh, gv = {}, {}
        for p in real:
            b2, g2 = gen.gen_behaviours(rnd, p, k, len(ops), [])
            for c, rules in b2.items():
                meta = p["cbs"][c.split("/", 1)[1]]
                beh[meta.get("full") or c] = rules
            for c, v in g2.items():
                meta = p["cbs"][c.split("/", 1)[1]]
                gv[meta.get("full") or c] = v
        # instances of the same class whose LISTENER objects (one class) carry different instance-level
        # callbacks: what one instance's listener has must not decide what another's is asked for
        same = [t for t, p_ in zip(insts, programs) if p_ is None] + ["A"]
        if len(same) >= 2 and base["listeners"]:
            role = base["listeners"][0]
            for nm, grp, tag_ in (("on_exit_state", "exit", same[0]), ("after_transition", "after", same[-1]),
                                  ("on_enter_state", "enter", same[0])):
                cb_ = f"{role}.{nm}"
                if cb_ not in base["cbs"] and rnd.random() < 0.6:
                    base["cbs"][cb_] = {"group": grp, "sig": [gen.P("event"), gen.P("kw", "varkw")],
                                        "partial": True, "only_for": [tag_]}
        sc = {"profile": "C16", "programs": real, "beh": beh, "gv": gv, "ops": ops, "driver": "sync",
              "perm_seed": rnd.randrange(1 << 30), "kinds": kinds, "insts": insts, "observe_more": True}
        all_sync = not any(m.get("async") for p_ in real for m in p_["cbs"].values())
        has_sub = any(p_.get("base_module") for p_ in real)
        if not has_sub and rnd.random() < 0.35:
            # (machines with coroutine callbacks are driven through the synchronous API here: every thread
            # runs them on its own event loop)
            if not all_sync and rnd.random() < 0.5:
                for p_ in real:
                    for m_ in p_["cbs"].values():
                        m_.pop("async", None)
                for o_ in ops:
                    if o_["op"] == "new" and o_.get("rtc") is True:
                        pass  # (rtc=True stays: it is a legal option of sync machines too)
                all_sync = True
            if not all_sync:
                sc["async_in_threads"] = True
            # thread variant: every instance is owned by one thread (its class is defined by that thread
            # too); process-wide caches and class-level objects are the only contact surface
            owner = {}
            thread_of = []
            for op in ops:
                if op["op"] == "define":
                    tag = next(o["inst"] for o in ops if o["op"] == "new" and o["prog"] == op["prog"])
                else:
                    tag = op["inst"]
                # instances of the same class share the defining thread's class but run on their own thread
                thread_of.append("T" + tag)
                owner[tag] = "T" + tag
            # a definition must precede the instantiations that use it, also across threads: keep
            # `define` ops on the main thread by loading those programs up-front instead
            for p_ in real:
                p_.pop("deferred", None)
            sc["ops"] = [o if o["op"] != "define" else {"op": "noop"} for o in ops]
            sc["thread_of"] = thread_of
            sc["mode"] = "threads"
            sc["tseed"] = rnd.randrange(1 << 30)
            sc["nswitch"] = rnd.choice([2, 3, 4, 6, 8])
            sc["tplan"] = None
        return sc

    def evaluate(self, sc):
        if sc.get("mode") == "threads":
            res = execute_threads(sc)
        else:
            res = self.execute(sc)
        out = {"violations": [], "unarmed": [], "mstats": {}, "res": res, "evals": 1, "c16": {}}
        if sc.get("mode") == "threads":
            out["c16"]["probe.thread_variant"] = 1
            if sc.get("async_in_threads"):
                out["c16"]["probe.thread_variant_with_coroutine_callbacks(one loop per thread)"] = 1
            out["c16"]["fault.preemptions"] = res["stats"].get("switches", 0)
        for tag in sc["insts"]:
            s = solo(sc, tag)
            sres = self.execute(s)
            out["evals"] += 1
            m = match.Matcher(s, sres)
            f = m.run(stop_at_first=True)
            out["mstats"] = m.stats
            if f and f[0]["kind"] != "allowed":
                out["unarmed"].append("solo:" + f[0]["kind"])
                out["c16"]["probe.solo_not_in_step_with_reference(skipped)"] = \
                    out["c16"].get("probe.solo_not_in_step_with_reference(skipped)", 0) + 1
                continue
            a = project(sc, res, tag)
            b = project(s, sres, tag)
            if a != b:
                k = 0
                while k < min(len(a), len(b)) and a[k] == b[k]:
                    k += 1
                inst_prog = next(o["prog"] for o in sc["ops"] if o["op"] == "new" and o["inst"] == tag)
                out["violations"].append({
                    "clause": "C16.isolation", "kind": "solo_vs_interleaved", "op": None,
                    "detail": {"instance": tag, "program": sc["programs"][inst_prog]["name"],
                               "first_difference_at": k,
                               "interleaved": a[k] if k < len(a) else None,
                               "solo": b[k] if k < len(b) else None,
                               "neighbour_kinds": sc.get("kinds"),
                               "inheritance_neighbour": self.inheritance_neighbour(sc, inst_prog)}})
                break
        return out

    @staticmethod
    def inheritance_neighbour(sc, inst_prog):
        """The victim's State objects are shared with a subclass defined in this run: it is the base
        class of a subclass, or a subclass whose base has another subclass."""
        me = sc["programs"][inst_prog]
        base_mod = me.get("base_module") or me["module"]
        others = [p for i, p in enumerate(sc["programs"]) if i != inst_prog]
        return any(p.get("base_module") == base_mod for p in others)

    def nontrivial(self, sc, ev):
        seq = [o.get("inst") for o in sc["ops"] if o["op"] == "send"]
        alternations = sum(1 for a, b in zip(seq, seq[1:]) if a != b)
        ran = {r["i"] for r in ev["res"]["trace"] if r["k"] == "cb+"}
        if alternations >= 2 and len(ran) >= 2:
            return ev["res"]["digest"]
        return None

    def counters(self, sc, ev):
        c = dict(ev.get("c16", {}))
        for kd in sc.get("kinds", []):
            c["fault.neighbour-" + kd] = c.get("fault.neighbour-" + kd, 0) + 1
        c["probe.instances"] = len(sc["insts"])
        return c

    def signature(self, v, sc):
        d = v.get("detail", {})
        return {"clause": v["clause"], "kind": v.get("kind"),
                "inheritance_neighbour": d.get("inheritance_neighbour")}
