"""C06: concurrent senders — mutual exclusion, exactly-once, per-sender FIFO, nothing stranded.

Two sub-campaigns with the same oracle: several asyncio tasks on one virtual-time loop (coroutine
callbacks that yield), and several OS threads under the baton scheduler (sync callbacks, rtc mode)
pre-empted at line granularity inside the library's dispatch code.  Machines are total and
fault-free, every send carries a unique token, and the reference is used as an *acceptor*: the
processing order is read from the trace, checked against the ordering constraints, and replayed on
the transition table to obtain the expected callbacks and final state (DESIGN §2.8, §3 C06).
"""

import asyncio
import gc
import random
import warnings

from .. import render
from .. import run as runmod
from .. import vloop
from ..campaign import Campaign
from ..campaign import register
from ..gen import P
from ..ref import Ref
from ..ref import RefInst
from ..simrt import SIM
from ..simrt import enc
from ..vthreads import ThreadSim
from ..vthreads import draw_plan

DISPATCH_FILES = ("sync.py", "async_.py", "base.py", "event.py", "statemachine.py")
ENGINE_FILES = ("sync.py", "async_.py", "base.py")


def total_program(rnd, is_async):
    ns = rnd.randint(2, 4)
    events = rnd.sample(["ev", "go", "tick", "e3"], rnd.randint(1, 3))
    ids = [f"s{i}" for i in range(ns)]
    prog = {"name": "M0", "module": "simgen_m0", "listeners": ["L0"], "model": {"kind": "attr", "field": "state"},
            "states": [{"id": s, "initial": i == 0, "final": False} for i, s in enumerate(ids)],
            "trans": [], "events": events, "cbs": {}}
    for i, s in enumerate(ids):
        for e in events:
            dst = rnd.choice(ids)
            if e == events[0]:
                dst = ids[(i + 1) % ns]  # keeps every state reachable
            t = {"src": s, "dst": dst, "events": [e]}
            if dst == s and rnd.random() < 0.3:
                t["internal"] = True
            prog["trans"].append(t)
    tok = P("tok", default=None)
    cbs = prog["cbs"]
    cbs["machine.on_transition"] = {"group": "on", "sig": [P("event"), tok]}
    for name, grp, role in (("before_transition", "before", "model"), ("after_transition", "after", "L0"),
                            ("on_enter_state", "enter", "machine"), ("on_exit_state", "exit", "model"),
                            ("after_transition", "after", "machine")):
        if rnd.random() < 0.6:
            cbs[f"{role}.{name}"] = {"group": grp, "sig": [tok, P("kw", "varkw")] if rnd.random() < 0.5 else [tok]}
    for e in events:
        if rnd.random() < 0.4:
            cbs[f"{rnd.choice(['machine', 'model', 'L0'])}.on_{e}"] = {"group": "on", "sig": [tok]}
    if is_async:
        keys = sorted(cbs)
        for c in keys:
            if rnd.random() < 0.7:
                cbs[c]["async"] = True
        cbs["machine.on_transition"]["async"] = True
        for c in keys:
            if not cbs[c].get("async") and rnd.random() < 0.4:
                # a plain function that RETURNS an awaitable (a coroutine function behind an ordinary
                # wrapper): the event's step is over only when that awaitable has been awaited
                cbs[c]["awaitable"] = True
    return prog


def gen_c06(rnd, mode, tier, tolerant_ok=False):
    is_async = mode == "asyncio"
    prog = total_program(rnd, is_async)
    tolerant = False
    if tolerant_ok and len(prog["events"]) >= 2 and rnd.random() < 0.25:
        # tolerant machine (allow_event_without_transition=True) that is NOT total: an accepted event
        # with no transition from the state it meets WHEN IT IS PROCESSED is ignored silently
        keep = [t for t in prog["trans"] if t["events"][0] == prog["events"][0] or rnd.random() < 0.5]
        if len(keep) < len(prog["trans"]):
            prog["trans"] = keep
            tolerant = True
    nsend = rnd.randint(2, 4 if tier == "thorough" or rnd.random() < 0.3 else 3)
    tiny = (not is_async) and rnd.random() < 0.5
    if tiny:
        nsend = rnd.choice([2, 3, 3, 4])
    senders = []
    for k in range(nsend):
        sends = []
        for j in range(1 if tiny else rnd.randint(1, 3 if not is_async else 4)):
            s = {"event": rnd.choice(prog["events"]), "tok": f"S{k}.{j}"}
            if is_async:
                s["think"] = rnd.choice([0, 0, 0.001, 0.002, 0.005, 1, 60])
                if rnd.random() < 0.2:
                    s["early"] = rnd.choice([0, 0.001, 0.005, 1])
            sends.append(s)
        senders.append({"id": f"S{k}", "sends": sends})
    burst = is_async and not tolerant and rnd.random() < 0.006
    if burst:
        # one sender's event stalls inside a callback while another sender sends a burst: more than a
        # thousand accepted events wait in the queue at once
        n_b = rnd.choice([300, 1100, 1500])
        senders = [{"id": "S0", "sends": [{"event": rnd.choice(prog["events"]), "tok": "S0.0", "think": 0}]},
                   {"id": "S1", "sends": [{"event": rnd.choice(prog["events"]), "tok": f"S1.{j}",
                                           "think": 0.001 if j == 0 else 0} for j in range(n_b)]}]
    beh = {}
    for c, m in sorted(prog["cbs"].items()):
        full = f"M0/{c}"
        if burst:
            if c == "machine.on_transition":
                beh[full] = [{"tok": "S0.0", "pre": 60}]
            continue
        if (m.get("async") or m.get("awaitable")) and rnd.random() < 0.8:
            r = {"pre": rnd.choice([0, 0, 0.001, 0.002, 0.005, 1, 60, 3600])}
            if rnd.random() < 0.3:
                r["post"] = rnd.choice([0, 0.001, 1])
            beh[full] = [r]
    # nested sends from callbacks, keyed by the token being processed
    alltoks = [s["tok"] for sd in senders for s in sd["sends"]]
    cands = sorted(c for c, m in prog["cbs"].items() if (m.get("async") or m.get("awaitable") or not is_async))
    for _ in range(0 if tolerant or burst else rnd.randint(0, 2)):
        c = rnd.choice(cands)
        if not c.startswith("machine."):
            sig = prog["cbs"][c]["sig"]
            if not any(p["name"] == "machine" for p in sig):
                sig.insert(0, P("machine"))
        tk = rnd.choice(alltoks)
        full = f"M0/{c}"
        rule = {"tok": tk, "sends": [{"event": rnd.choice(prog["events"]), "tokx": f".n{i}"}
                                     for i in range(rnd.randint(1, 2))]}
        base = [r for r in beh.get(full, []) if "tok" not in r]
        if base:
            for k2 in ("pre", "post"):
                if k2 in base[0]:
                    rule[k2] = base[0][k2]
        # at most one sending callback per token (order inside a group is unspecified)
        if not any(r.get("tok") == tk for rules in beh.values() for r in rules):
            beh.setdefault(full, []).insert(0, rule)
    if rnd.random() < 0.25:
        # a callback attaches one more (blank) listener to the machine while its event is in progress
        c = rnd.choice(cands)
        if not c.startswith("machine."):
            sig = prog["cbs"][c]["sig"]
            if not any(p["name"] == "machine" for p in sig):
                sig.insert(0, P("machine"))
        tk = rnd.choice(alltoks)
        full = f"M0/{c}"
        have = next((r for r in beh.get(full, []) if r.get("tok") == tk), None)
        if have is not None:
            have["attach"] = True
        else:
            rule = {"tok": tk, "attach": True}
            base = [r for r in beh.get(full, []) if "tok" not in r]
            if base:
                for k2 in ("pre", "post", "ret"):
                    if k2 in base[0]:
                        rule[k2] = base[0][k2]
            beh.setdefault(full, []).insert(0, rule)
    cancel = is_async and not burst and rnd.random() < 0.25
    if cancel:
        # cancel@await: some sends are wrapped in wait_for with a short (virtual) timeout
        for sd in senders:
            for s_ in sd["sends"]:
                if rnd.random() < 0.5:
                    s_["timeout"] = rnd.choice([0, 0.001, 0.003, 0.5, 30])
                    s_.pop("early", None)
    # every event has a value to return: unique per invocation (used for provenance of results)
    beh.setdefault("M0/machine.on_transition", [{}])
    for r_ in beh["M0/machine.on_transition"]:
        r_["ret"] = {"$uniq": 1}
    sc = {"profile": "C06", "mode": mode, "programs": [prog], "beh": beh, "gv": {}, "senders": senders,
          "cancel": cancel,
          "ops": [{"op": "new", "inst": "A", "prog": 0, "listeners": ["L0"], "rtc": True, "allow": tolerant}],
          "perm_seed": 0}
    if tolerant:
        sc["tolerant"] = True
    if rnd.random() < 0.2:
        sc["copied"] = rnd.choice(["deepcopy", "pickle"])
    if burst:
        sc["burst"] = n_b
    if mode == "asyncio" and not cancel and not tolerant and rnd.random() < 0.3:
        # the initial activation is ONE MORE concurrent party: a task awaits activate_initial_state() while
        # the senders already send; its callbacks are a critical section like any event's
        sc["lazy_activation"] = True
    if mode == "threads":
        sc["tseed"] = rnd.randrange(1 << 30)
        sc["nswitch"] = rnd.choice([1, 2, 2, 2, 3, 4, 6])
        sc["victim"] = rnd.random() < 0.5
        sc["tiny"] = tiny
        sc["tplan"] = None
    return sc


# --------------------------------------------------------------------------------------------
# execution
# --------------------------------------------------------------------------------------------


def _build(sc):
    runmod.hygiene()
    sidx = {p["name"]: render.state_index_map(p) for p in sc["programs"]}
    rt = dict(sc)
    rt["sidx"] = sidx
    SIM.reset(rt)
    p = sc["programs"][0]
    mod = render.load_program(p)
    model = getattr(mod, p["name"] + "_model")()
    model.__dict__["_sim_tag"] = "A"
    model.__dict__["_sim_role"] = "model"
    l0 = getattr(mod, p["name"] + "_L0")()
    l0._sim_tag = "A"
    l0._sim_role = "L0"
    SIM.models["A"] = model
    SIM.fields["A"] = "state"
    SIM.constructing = "A"
    try:
        kw = {"allow_event_without_transition": True} if sc.get("tolerant") else {}
        sm = getattr(mod, p["name"])(model, listeners=[l0], **kw)
    finally:
        SIM.constructing = None
    sm._sim_tag = "A"
    sm._sim_role = "machine"
    if sc.get("copied"):
        # the machine under test is a COPY (deepcopy / unpickled): its engine, queue and lock were rebuilt
        # by __setstate__ and its processing loop has never run when the senders arrive
        import copy
        import pickle

        sm = copy.deepcopy(sm) if sc["copied"] == "deepcopy" else pickle.loads(pickle.dumps(sm))
        SIM.models["A"] = sm.model
    SIM.machines["A"] = sm
    return sm


def _obs(sm, what):
    o = {}
    try:
        o["cs"] = sm.current_state.id
    except Exception as e:
        o["cs_err"] = type(e).__name__
    SIM.rec(k="obs", what=what, **o)


def _exec_async(sc):
    sm = _build(sc)
    loop = vloop.SimLoop()
    harness = {}

    async def sender(sd):
        from ..simrt import SENDER

        SENDER.set(sd["id"])
        for s in sd["sends"]:
            if s.get("think"):
                await asyncio.sleep(s["think"])
            SIM.rec(k="send+", s=sd["id"], tok=s["tok"], ev=s["event"])
            try:
                c = sm.send(s["event"], tok=s["tok"])
                if s.get("early") is not None:
                    await asyncio.sleep(s["early"])
                if s.get("timeout") is not None:
                    r = await asyncio.wait_for(c, timeout=s["timeout"])
                else:
                    r = await c
                SIM.rec(k="send-", s=sd["id"], tok=s["tok"], out=["ret", enc(r)])
            except Exception as e:
                SIM.rec(k="send-", s=sd["id"], tok=s["tok"], out=["exc", SIM._describe_exc(e)])

    async def activator():
        await sm.activate_initial_state()
        SIM.rec(k="activated")

    async def main():
        tasks = []
        if sc.get("lazy_activation"):
            tasks.append(loop.create_task(activator()))
        else:
            await activator()
        for sd in sc["senders"]:
            t = loop.create_task(sender(sd))
            t._sim_sender = sd["id"]
            tasks.append(t)
        await asyncio.gather(*tasks)
        SIM.rec(k="all_returned")
        _obs(sm, "all_returned")
        try:
            await sm.send(sc["programs"][0]["events"][0], tok="probe")
        except Exception as e:
            harness["probe_exc"] = type(e).__name__
        _obs(sm, "after_probe")

    loop.run_until_complete(main())
    SIM.stats["vtime"] = loop.time()
    SIM.stats["loop_steps"] = loop.steps
    return sm


_hot_cache = {}


def hot_lines():
    """(file basename, line number) of every line of the engines that touches the shared queue or the
    processing lock: the synchronisation points of the dispatch code.  Derived from the source text of
    the working tree under test, so it follows refactorings."""
    import os
    import re

    root = os.path.join(runmod.REPO, "statemachine", "engines")
    if root not in _hot_cache:
        hot = set()
        pat = re.compile(r"_processing\b|_external_queue\b|\.put\(|processing_loop\(|\bLock\(|\.acquire\(|"
                         r"\.release\(|\b_?lock\b|\.popleft\(")
        for fn in sorted(os.listdir(root)):
            if fn.endswith(".py"):
                lines = open(os.path.join(root, fn)).read().splitlines()
                for i, line in enumerate(lines, 1):
                    if pat.search(line) and not line.lstrip().startswith(("#", "def ", "async def ", '"""')):
                        hot.add((fn, i))
                        # ... and the statement right after it (the 'act' of a check-then-act window)
                        for j in range(i + 1, min(i + 4, len(lines) + 1)):
                            nxt = lines[j - 1].strip()
                            if nxt and not nxt.startswith(("#", '"""')):
                                hot.add((fn, j))
                                break
        _hot_cache[root] = hot
    return _hot_cache[root]


def _exec_threads(sc, plan, record_sites=False):
    sm = _build(sc)
    SIM.rec(k="activated")
    ts = ThreadSim(runmod.REPO, plan=plan)
    SIM.threads = ts
    sites = []
    ts.record = bool(record_sites)
    ts.on_switch = lambda step, a, b, site: SIM.rec(k="sw", step=step, frm=a, to=b, site=site)

    def mk(sd):
        def body():
            SIM.tl.sender = sd["id"]
            for s in sd["sends"]:
                SIM.rec(k="send+", s=sd["id"], tok=s["tok"], ev=s["event"])
                try:
                    r = sm.send(s["event"], tok=s["tok"])
                    SIM.rec(k="send-", s=sd["id"], tok=s["tok"], out=["ret", enc(r)])
                except Exception as e:
                    SIM.rec(k="send-", s=sd["id"], tok=s["tok"], out=["exc", SIM._describe_exc(e)])
        return body

    for sd in sc["senders"]:
        ts.spawn(sd["id"], mk(sd))
    ts.run()
    SIM.threads = None
    if ts.errors:
        name, e = sorted(ts.errors.items())[0]
        raise runmod.HarnessError(f"sender {name} failed: {type(e).__name__}: {e}")
    if ts.overflow:
        raise runmod.HarnessError("thread step cap exceeded")
    SIM.rec(k="all_returned")
    _obs(sm, "all_returned")
    try:
        sm.send(sc["programs"][0]["events"][0], tok="probe")
    except Exception:
        pass
    _obs(sm, "after_probe")
    SIM.stats["line_steps"] = ts.step
    SIM.stats["switches"] = len(ts.switches)
    return ts, sites


def execute(sc):
    res = runmod.isolated(_execute, sc)
    if res.get("tplan") is not None:
        sc["tplan"] = res["tplan"]  # drawn on first execution, stored for replay / minimisation
        sc["dry_steps"] = res.get("dry_steps")
    return res


def _execute(sc):
    with warnings.catch_warnings(record=True) as wl:
        warnings.simplefilter("always")
        info = {}
        try:
            if sc["mode"] == "asyncio":
                _exec_async(sc)
            else:
                if sc.get("tplan") is None:
                    ts, _sites = _exec_threads(sc, [], record_sites=True)
                    rnd = random.Random(sc["tseed"])
                    names = [sd["id"] for sd in sc["senders"]]
                    sc["tplan"] = draw_plan(rnd, ts.per_thread, names, sc.get("nswitch", 2), hot_lines(),
                                            ENGINE_FILES, victim=bool(sc.get("victim")))
                    sc["dry_steps"] = ts.step
                    render.unload_program(sc["programs"][0])
                ts, _ = _exec_threads(sc, sc["tplan"])
                info["sites"] = dict(ts.sites)
                info["switches"] = list(ts.switches)
        finally:
            trace = list(SIM.trace)
            stats = dict(SIM.stats)
            SIM.threads = None
            gc.collect()
            render.unload_program(sc["programs"][0])
            SIM.machines = {}
            SIM.models = {}
            vloop.reset_loops()
        caught = [[w.category.__name__, str(w.message)] for w in wl]
    return {"trace": trace, "outs": [], "warnings": caught, "stats": stats, "digest": runmod.digest(trace),
            "never_awaited": sorted({m for c, m in caught if "never awaited" in m}), "info": info,
            "tplan": sc.get("tplan"), "dry_steps": sc.get("dry_steps")}


# --------------------------------------------------------------------------------------------
# oracle
# --------------------------------------------------------------------------------------------


def check(sc, res):
    prog = sc["programs"][0]
    trace = res["trace"]
    ref = Ref(sc)
    inst = RefInst(ref, "A", ref.progs[0], {}, ["machine", "model", "L0"])
    ev_of = {}
    sender_of = {}
    enq = []
    for r in trace:
        if r["k"] == "send+":
            ev_of[r["tok"]] = r["ev"]
            sender_of[r["tok"]] = r["s"]
            enq.append(r["tok"])
        elif r["k"] == "ns+":
            tok = (r["kw"].get("$d") and dict((k, v) for k, v in r["kw"]["$d"]).get("tok")) or None
            if tok is not None:
                ev_of[tok] = r["ev"]
                enq.append(tok)
    stats = {"tokens": len(ev_of), "loser_returns": 0, "overlapping_senders": 0}
    # ---- overlap of senders in time (non-triviality)
    open_s = set()
    for r in trace:
        if r["k"] == "send+":
            if open_s - {r["s"]}:
                stats["overlapping_senders"] += 1
            open_s.add(r["s"])
        elif r["k"] == "send-":
            open_s.discard(r["s"])
    marker = next((r["q"] for r in trace if r["k"] == "all_returned"), None)
    act = next((r["q"] for r in trace if r["k"] == "activated"), 0)
    lazy = bool(sc.get("lazy_activation"))
    if lazy:
        act = 0  # the activation's callbacks form a block of their own ("__initial__"), the first one
    # ---- 1. mutual exclusion: callback records of different tokens form disjoint contiguous blocks
    blocks = []  # [tok, [cb+ records], first_q, last_end_q]
    open_cb = {}
    closed_toks = set()
    for r in trace:
        if r["q"] < act:
            continue
        if r["k"] == "cb+":
            tok = r["b"].get("tok")
            if tok is None and isinstance(r["b"].get("kw"), dict):
                tok = dict((k, v) for k, v in r["b"]["kw"].get("$d", [])).get("tok")
            if lazy and tok is None:
                tok = "__initial__"
            if blocks and blocks[-1][0] == tok:
                blocks[-1][1].append(r)
            else:
                still = [q for q, t in open_cb.items() if t != tok]
                if still:
                    return [{"clause": "C06.mutual_exclusion", "kind": "overlap", "op": None,
                             "detail": {"began": tok, "cb": r["c"], "while_running": sorted(set(open_cb.values()))}}], stats
                if tok in closed_toks:
                    return [{"clause": "C06.mutual_exclusion", "kind": "interleaved", "op": None,
                             "detail": {"token": tok, "cb": r["c"], "blocks": [b[0] for b in blocks][-6:]}}], stats
                if blocks:
                    closed_toks.add(blocks[-1][0])
                blocks.append([tok, [r]])
            open_cb[r["q"]] = tok
        elif r["k"] == "cb-":
            open_cb.pop(r["r"], None)
    stats["cancelled_sends"] = sum(1 for r in trace if r["k"] == "send-" and r["out"][0] == "exc"
                                   and r["out"][1].get("cls") == "TimeoutError")
    if sc.get("cancel"):
        # a cancelled drain aborts its transition and drops what is queued (C04): only the overlap
        # clause is meaningful here
        return [], stats
    if sc.get("tolerant"):
        return check_tolerant(sc, res, prog, inst, ref, blocks, ev_of, enq, marker, trace), stats
    # ---- 2. exactly once, by replaying the observed order on the transition table
    if lazy:
        if any(b[0] == "__initial__" for b in blocks[1:]):
            return [{"clause": "C06.mutual_exclusion", "kind": "activation_not_first", "op": None,
                     "detail": {"blocks": [b[0] for b in blocks][:6]}}], stats
        blocks = [b for b in blocks if b[0] != "__initial__"]
    order = [b[0] for b in blocks]
    state = ref.progs[0].initial
    pre_marker = set()
    for tok, recs in blocks:
        if tok == "probe":
            continue
        if marker is not None and recs[0]["q"] < marker:
            pre_marker.add(tok)
        ev = ev_of.get(tok)
        if ev is None:
            return [{"clause": "C06.exactly_once", "kind": "unknown_token", "op": None,
                     "detail": {"token": tok}}], stats
        t = next((dict(t, idx=i) for i, t in enumerate(prog["trans"])
                  if t["src"] == state and ev in t["events"]), None)
        exp = []
        for kind in ("before", "exit", "on", "enter", "after"):
            if kind in ("exit", "enter") and t.get("internal"):
                continue
            exp.extend(f"M0/{c}" for c in inst.members(kind, t, ev))
        got = sorted(r["c"] for r in recs)
        if got != sorted(exp):
            return [{"clause": "C06.exactly_once", "kind": "callbacks", "op": None,
                     "detail": {"token": tok, "event": ev, "state": state, "expected": sorted(exp), "got": got}}], stats
        state = t["dst"]
        if marker is None or recs[0]["q"] < marker:
            state_at_marker = state
    dup = [t for t in set(order) if order.count(t) > 1]
    if dup:
        return [{"clause": "C06.exactly_once", "kind": "twice", "op": None, "detail": {"tokens": dup}}], stats
    # ---- 3. FIFO
    if sc["mode"] == "asyncio":
        proc = [t for t in order if t != "probe"]
        want = [t for t in enq if t in set(proc)]
        if proc != want:
            return [{"clause": "C06.fifo", "kind": "global_order", "op": None,
                     "detail": {"enqueued": want, "processed": proc}}], stats
    else:
        for sd in sc["senders"]:
            mine = [s["tok"] for s in sd["sends"]]
            seen = [t for t in order if t in mine]
            if seen != [t for t in mine if t in seen]:
                return [{"clause": "C06.fifo", "kind": "per_sender", "op": None,
                         "detail": {"sender": sd["id"], "sent": mine, "processed": seen}}], stats
    for tok in order:
        if ".n" in tok:
            parent = tok.rsplit(".n", 1)[0]
            if parent not in order or order.index(parent) > order.index(tok):
                return [{"clause": "C06.fifo", "kind": "nested_before_parent", "op": None,
                         "detail": {"token": tok, "order": order}}], stats
    # ---- 4. quiescence: nothing is left unprocessed once every sender has returned
    missing = [t for t in ev_of if t not in pre_marker]
    if missing:
        late = [t for t in missing if t in order]
        return [{"clause": "C06.stranded", "kind": "stranded", "op": None,
                 "detail": {"unprocessed_when_all_senders_returned": sorted(missing),
                            "processed_only_by_the_later_probe_send": sorted(late),
                            "switches": res.get("info", {}).get("switches")}}], stats
    obs = next((r for r in trace if r["k"] == "obs" and r["what"] == "all_returned"), None)
    exp_state = ref.progs[0].initial
    for tok, recs in blocks:
        if tok == "probe":
            continue
        ev = ev_of[tok]
        t = next(t for t in prog["trans"] if t["src"] == exp_state and ev in t["events"])
        exp_state = t["dst"]
    if obs is not None and obs.get("cs") != exp_state:
        return [{"clause": "C06.final_state", "kind": "final_state", "op": None,
                 "detail": {"expected": exp_state, "actual": obs.get("cs", obs.get("cs_err")), "order": order}}], stats
    # loser path: a send returned while another sender's drain processed its event
    for r in trace:
        if r["k"] == "cb+" and r.get("s") is not None:
            tok = r["b"].get("tok")
            if tok in sender_of and sender_of[tok] != r["s"]:
                stats["loser_returns"] += 1
                break
    return [], stats


def check_tolerant(sc, res, prog, inst, ref, blocks, ev_of, enq, marker, trace):
    """Tolerant, non-total machine: an accepted event that meets a state without a transition for it
    leaves no record, so its position in the processing order is not observable.  The run is accepted
    iff SOME total order of all tokens -- the enqueue order (asyncio), any merge of the senders'
    orders (threads) -- explains it: replayed from the initial state, every token that has a transition
    where it stands is the next observed block with exactly the prescribed callbacks, every token that
    has none is silent, all blocks lie before the last sender's return, and the replay ends in the
    observed state."""
    obs_blocks = [(tok, recs) for tok, recs in blocks if tok != "probe"]
    for tok, recs in obs_blocks:
        if tok not in ev_of:
            return [{"clause": "C06.exactly_once", "kind": "unknown_token", "op": None, "detail": {"token": tok}}]
        if marker is not None and recs[0]["q"] > marker:
            return [{"clause": "C06.stranded", "kind": "stranded", "op": None,
                     "detail": {"processed_only_by_the_later_probe_send": [tok]}}]
    order = [tok for tok, _r in obs_blocks]
    if len(set(order)) != len(order):
        return [{"clause": "C06.exactly_once", "kind": "twice", "op": None,
                 "detail": {"tokens": sorted(t for t in set(order) if order.count(t) > 1)}}]
    obs = next((r for r in trace if r["k"] == "obs" and r["what"] == "all_returned"), None)
    final = (obs or {}).get("cs")
    if sc["mode"] == "asyncio":
        lanes = [list(enq)]
    else:
        lanes = [[s_["tok"] for s_ in sd["sends"] if s_["tok"] in ev_of] for sd in sc["senders"]]
    trans_of = {}
    for t in prog["trans"]:
        for e in t["events"]:
            trans_of.setdefault((t["src"], e), t)
    want_cache = {}

    def wanted(t, ev):
        key = (t["src"], t["dst"], ev)
        if key not in want_cache:
            exp = []
            for kind in ("before", "exit", "on", "enter", "after"):
                if kind in ("exit", "enter") and t.get("internal"):
                    continue
                exp.extend(f"M0/{c}" for c in inst.members(kind, dict(t, idx=prog["trans"].index(t)), ev))
            want_cache[key] = sorted(exp)
        return want_cache[key]

    got_of = {tok: sorted(r["c"] for r in recs) for tok, recs in obs_blocks}
    seen = set()
    best = {"depth": -1, "why": None}

    def dfs(pos, state, k):
        key = (pos, state, k)
        if key in seen:
            return False
        seen.add(key)
        if all(pos[i] == len(lanes[i]) for i in range(len(lanes))):
            if k == len(order) and (final is None or final == state):
                return True
            if sum(pos) > best["depth"]:
                best.update(depth=sum(pos), why={"replayed_state": state, "observed_state": final,
                                                 "blocks_explained": k, "blocks": len(order)})
            return False
        for i in range(len(lanes)):
            if pos[i] == len(lanes[i]):
                continue
            tok = lanes[i][pos[i]]
            ev = ev_of[tok]
            t = trans_of.get((state, ev))
            npos = pos[:i] + (pos[i] + 1,) + pos[i + 1:]
            if t is None:
                if tok in got_of:
                    continue  # it ran callbacks, so it cannot have met this state
                if dfs(npos, state, k):
                    return True
            else:
                if k < len(order) and order[k] == tok and got_of[tok] == wanted(t, ev):
                    if dfs(npos, t["dst"], k + 1):
                        return True
                elif sum(pos) > best["depth"]:
                    best.update(depth=sum(pos), why={"token": tok, "event": ev, "state": state,
                                                     "expected": wanted(t, ev), "got": got_of.get(tok),
                                                     "next_observed_block": order[k] if k < len(order) else None})
        return False

    if dfs(tuple(0 for _ in lanes), ref.progs[0].initial, 0):
        return []
    return [{"clause": "C06.exactly_once", "kind": "no_explaining_order", "op": None,
             "detail": {"processed": order, "sent": lanes, "events": {t: ev_of[t] for t in ev_of},
                        "closest": best["why"], "observed_state": final,
                        "switches": res.get("info", {}).get("switches")}}]


def result_provenance(sc, res):
    """What a send() returns is built from the before/on results of the FIRST event processed by that
    caller's own drain (its own event, or an earlier-enqueued one of another sender), and is None when
    the call processed nothing.  Values are unique per invocation, so provenance is decidable."""
    trace = res["trace"]
    tok_of = {}
    vals = {}
    for r in trace:
        if r["k"] == "cb+":
            tok = r["b"].get("tok")
            if tok is None and isinstance(r["b"].get("kw"), dict):
                tok = dict((k, v) for k, v in r["b"]["kw"].get("$d", [])).get("tok")
            tok_of[r["q"]] = tok
        elif r["k"] == "cb-" and r["out"][0] == "ret":
            v = r["out"][1]
            if isinstance(v, str) and v.startswith("u:"):
                vals.setdefault(tok_of.get(r["r"]), set()).add(v)

    def leaves(v, out):
        if isinstance(v, list):
            for x in v:
                leaves(x, out)
        elif isinstance(v, str) and v.startswith("u:"):
            out.append(v)
        return out

    begun = {}
    for r in trace:
        if r["k"] == "send+":
            begun[(r["s"], r["tok"])] = r["q"]
        elif r["k"] == "send-" and r["out"][0] == "ret":
            lo = begun.get((r["s"], r["tok"]), 0)
            first_tok = None
            for x in trace:
                if x["k"] == "cb+" and lo < x["q"] < r["q"] and x.get("s") == r["s"]:
                    first_tok = tok_of.get(x["q"])
                    break
            got = leaves(r["out"][1], [])
            allowed = vals.get(first_tok, set()) if first_tok is not None else set()
            foreign = [g for g in got if g not in allowed]
            if foreign:
                owner = [t for t, vs in vals.items() if foreign[0] in vs]
                return [{"clause": "C14.result_provenance", "kind": "foreign_result", "op": None,
                         "detail": {"token": r["tok"], "returned": r["out"][1],
                                    "first_event_processed_by_this_call": first_tok, "belongs_to": owner,
                                    "switches": res.get("info", {}).get("switches")}}]
    return []


@register
class C06(Campaign):
    pid = "C06"
    title = "Concurrent senders: mutual exclusion, exactly-once, nothing stranded"
    technique = ("deterministic simulation of schedules: asyncio tasks on a virtual-time loop and real threads "
                 "under a settrace baton scheduler with seeded PCT-style pre-emption; acceptor-mode reference")
    quick_runs = 10000
    thorough_runs = 150000
    chunk = 100
    fault_kinds = ["preempt@line (threads, <=6 per run, 70% on lines touching the queue / the lock)",
                   "cancel@await: sender wrapped in wait_for (asyncio; only the overlap clause is judged)", "sender think-time",
                   "coroutine created early / awaited late", "callback delay 0..1h virtual (stall)",
                   "nested send from a callback", "listener attached by a callback while its event is in progress",
                   "tolerant non-total machine: events that meet no transition when processed are ignored silently",
                   "burst of 300-1500 sends from one task while another task's event stalls in a callback",
                   "the machine is a fresh deepcopy / unpickled copy (engine and lock rebuilt, loop never run)"]
    rule = ("one run = a total, fault-free machine and 2-4 concurrent senders (asyncio tasks with seeded "
            "think-times and yielding coroutine callbacks, or OS threads pre-empted at seeded line boundaries), "
            "each sending 1-4 uniquely tokenised events, some callbacks sending nested events. Checked from "
            "the trace: callback records of different tokens form disjoint contiguous blocks, each token's "
            "callbacks are exactly those the transition table prescribes when the observed order is replayed, "
            "processing order respects enqueue order (asyncio) / per-sender order (threads), every token is "
            "processed before the last sender returns, final state = replayed state. Non-trivial = at least "
            "two senders' send() calls overlapped in time; distinct = distinct trace digests among those.")
    assumptions = [
        "machines are total and fault-free so that 'accepted' is unambiguous (failures are C04's subject); a "
        "quarter of the runs use a tolerant (allow_event_without_transition=True), non-total machine instead: "
        "silently ignored events leave no record, so the run is accepted iff some order of all tokens compatible "
        "with the enqueue order (asyncio) / the per-sender orders (threads) explains blocks, callbacks and final state",
        "threads: pre-emption at line granularity inside /repo/statemachine/** and at explicit yield points "
        "in callbacks, <=6 switches per run; a race needing a switch inside one line's bytecodes is out of reach",
        "asyncio: the ready queue stays FIFO; interleavings come from virtual delays",
    ]

    def scenario(self, rnd, tier):
        mode = "threads" if rnd.random() < 0.5 else "asyncio"
        return gen_c06(rnd, mode, tier, tolerant_ok=True)

    def evaluate(self, sc):
        res = execute(sc)
        prog = sc["programs"][0]
        total = all(any(t["src"] == s_["id"] and e in t["events"] for t in prog["trans"])
                    for s_ in prog["states"] for e in prog["events"])
        used = {s_["event"] for sd in sc["senders"] for s_ in sd["sends"]}
        if sc.get("tolerant"):
            total = sc["ops"][0].get("allow") is True and not any(
                r_.get("sends") for rules in sc["beh"].values() for r_ in rules)
        if not all(any(q["name"] == "tok" for q in m_.get("sig", [])) for m_ in prog["cbs"].values()):
            total = False  # (minimisation) a callback that does not receive the token leaves anonymous records
        if "machine.on_transition" not in prog["cbs"] or not total or not used <= set(prog["events"]):
            # (only reachable through minimisation) without it a token leaves no record: not judged
            return {"violations": [], "unarmed": ["invalid"], "mstats": {}, "res": res,
                    "c06": {"tokens": 0, "loser_returns": 0, "overlapping_senders": 0}}
        viol, stats = check(sc, res)
        return {"violations": viol, "unarmed": [], "mstats": {}, "res": res, "c06": stats}

    def nontrivial(self, sc, ev):
        if ev["c06"].get("overlapping_senders"):
            return ev["res"]["digest"]
        return None

    def counters(self, sc, ev):
        st = ev["res"]["stats"]
        c = {"probe.mode_" + sc["mode"]: 1, "probe.tokens": ev["c06"]["tokens"],
             "fault.cancel@await(sender wait_for timeout)": ev["c06"].get("cancelled_sends", 0),
             "probe.loser_send_processed_by_other_sender": ev["c06"]["loser_returns"],
             "probe.overlapping_send_calls": ev["c06"]["overlapping_senders"],
             "fault.nested_sends": st.get("sends", 0), "fault.virtual_delays": st.get("delays", 0),
             "fault.listener_attached_mid_event": st.get("attach", 0),
             "probe.tolerant_non_total_machine(order search)": 1 if sc.get("tolerant") else 0,
             "fault.activation_concurrent_with_senders": 1 if sc.get("lazy_activation") else 0,
             "fault.burst_while_stalled(events pending at once)": sc.get("burst", 0),
             "fault.machine_is_a_fresh_copy(" + str(sc.get("copied")) + ")": 1 if sc.get("copied") else 0,
             "fault.preemptions": st.get("switches", 0), "probe.line_steps": st.get("line_steps", 0)}
        for site, n in (ev["res"].get("info", {}).get("sites") or {}).items():
            c["probe.preempt_site." + site] = n
        return c

    def sample(self, sc, ev):
        return {"mode": sc["mode"], "senders": sc["senders"], "states": len(sc["programs"][0]["states"]),
                "plan": sc.get("tplan"), "digest": ev["res"]["digest"]}

    def signature(self, v, sc):
        sig = {"clause": v["clause"], "kind": v.get("kind"), "mode": sc.get("mode")}
        sw = (v.get("detail") or {}).get("switches") or []
        if sw:
            sig["last_switch_site"] = sw[-1][3]
        return sig
