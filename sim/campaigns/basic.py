"""C01 (transition selection), C02 (callback order / state view), C14 (event results).

All three are clauses over the same kind of run: a generated machine driven through a seeded
history and compared, operation by operation, with the reference interpreter.  Their envelopes
contain no nested sends (C03's subject) and no action faults (C04's subject).
"""

from .. import gen
from ..campaign import Campaign
from ..campaign import register

ASYNC_MODES = ["none", "none", "all", "mixed", "one", "guards", "actions"]


@register
class C01(Campaign):
    pid = "C01"
    title = "Transition selection follows the declared machine"
    armed = {"op_state": "C01.state", "op_exc": "C01.exception", "x_state": "C01.state"}
    fault_kinds = ["raise@validator", "unknown-event", "guard-valuation-redrawn-per-event",
                   "event sent to a second, independent machine from inside a callback",
                   "async-guard-delay", "async-guard-start-permutation"]
    rule = ("one run = one generated machine (2-5 states, <=14 transitions, up to 3+ candidates per "
            "(state,event), multi-event/self/internal transitions, cond+unless mixes, validators) x "
            "option draw (rtc x allow x sync/async callbacks x sync/in-loop/threads-in-turn driver) x a "
            "5-25 event history with guard valuations re-drawn per event and validator faults; state, "
            "exception and model field are compared with the reference interpreter after every event. "
            "Non-trivial = at least one event for which >=2 candidate transitions were tried; "
            "distinct = distinct trace digests among those.")
    assumptions = [
        "guards are pure valuations drawn from the scenario (as the docs require of guards)",
        "envelope: no nested sends, no action faults, truthy models, no attribute-named events",
        "sampling, not enumeration: a clean batch is evidence, not proof",
    ]

    def knobs(self, rnd, tier):
        return gen.knobs(async_modes=ASYNC_MODES, drivers=["sync", "sync", "inloop", "threads_in_turn"],
                         p_cond=0.6, p_unless=0.4, p_validator=0.3, p_dup_candidate=0.6,
                         p_multi_guard_provider=0.0, p_attach_style=0.25, p_prop_guard=0.15,
                         p_from_any=0.2, p_event_obj=0.15, p_event_decl=0.2, p_decl_style=0.2, p_or_group=0.15, p_devent=0.15, p_multi_source=0.15, p_guard_any_value=0.4, p_expr_guard=0.1 if rnd.random() < 0.5 else 0.0)

    def scenario(self, rnd, tier):
        k = self.knobs(rnd, tier)
        sc = gen.gen_scenario(rnd, k, profile=self.pid)
        prog = sc["programs"][0]
        if rnd.random() < 0.25:
            self.add_second_machine(rnd, sc)
        vals = sorted(c for c, m in prog["cbs"].items() if m["group"] == "validators")
        n = len(sc["ops"])
        if vals and rnd.random() < 0.6:
            used_eps = set()
            for _ in range(rnd.randint(1, 2)):
                c = rnd.choice(vals)
                ep = rnd.randrange(1, n)
                if ep in used_eps:
                    # two validators of one candidate failing in the same event: which exception wins
                    # depends on the (unspecified) order inside the group
                    continue
                used_eps.add(ep)
                full = f"{prog['name']}/{c}"
                sc["beh"].setdefault(full, []).insert(
                    0, {"ep": ep, "raise": rnd.choice(["SimLookup", "SimValue", "SimFault", "SimRuntime", "SimAttr"])})
        return sc

    @staticmethod
    def add_second_machine(rnd, sc):
        """A second, independent machine B; some of A's callbacks send events to B, which must fire
        B's transitions then and there (B's engine, queue and lock are its own)."""
        from .concurrent import total_program

        prog = sc["programs"][0]
        b = total_program(rnd, False)
        b["name"] = "B0"
        b["module"] = "simgen_b0"
        sc["programs"].append(b)
        xs = gen.choose_effectful(rnd, prog, rnd.randint(1, 3), ("before", "exit", "on", "enter", "after"))
        k = 0
        for c in xs:
            full = f"{prog['name']}/{c}"
            rules = sc["beh"].setdefault(full, [{}])
            for r in rules:
                k += 1
                r["xsends"] = [{"inst": "B", "event": rnd.choice(b["events"]), "kwargs": {"tok": f"x{k}"}}]
        ops = sc["ops"]
        newb = {"op": "new", "inst": "B", "prog": 1, "listeners": ["L0"], "rtc": True, "allow": True}
        out = [newb, ops[0]]
        for op in ops[1:]:
            if rnd.random() < 0.2:
                out.append({"op": "send", "inst": "B", "event": rnd.choice(b["events"]), "kwargs": {"tok": "d"}})
            out.append(op)
        sc["ops"] = out
        for g in sc["gv"].values():
            while len(g) < len(out):
                g.append(g[-1])
        sc["two_machines"] = True

    def classify(self, sc, res, findings):
        viol, unarmed = super().classify(sc, res, findings)
        if not viol:
            # a raising validator must stop the candidate loop: nothing of a later candidate begins
            outs = {o["n"]: o for o in res["outs"]}
            for f in findings:
                if f["kind"] == "seq.extra":
                    exc = (outs.get(f["op"]) or {}).get("exc") or {}
                    sid = exc.get("sim_id")
                    if sid and "/"in sid[0] and ".v_" in sid[0]:
                        viol.append({"clause": "C01.validator_abort", "kind": f["kind"], "op": f["op"],
                                     "detail": f["detail"]})
                break
        return viol, unarmed

    def nontrivial(self, sc, ev):
        if ev["mstats"].get("multi_candidate_ops"):
            return ev["res"]["digest"]
        return None

    def counters(self, sc, ev):
        st = ev["res"]["stats"]
        m = ev["mstats"]
        return {"fault.raise@validator": st.get("raises", 0), "probe.transition_not_allowed": m.get("tna", 0),
                "fault.event_sent_to_another_machine_from_a_callback": st.get("xsends", 0),
                "probe.multi_candidate_events": m.get("multi_candidate_ops", 0),
                "fault.async_guard_start_permutations": st.get("perms", 0),
                "fault.virtual_delays": st.get("delays", 0)}


@register
class C02(Campaign):
    pid = "C02"
    title = "Callback groups run in the documented order with the documented view of state"
    armed = {"seq.*": "C02.sequence", "barrier": "C02.barrier", "view": "C02.state_view",
             "bound.state": "C02.injected", "bound.event": "C02.injected", "bound.source": "C02.injected",
             "bound.target": "C02.injected"}
    fault_kinds = ["async-callback-delay (0 .. 1 h virtual)", "async-guard-start-permutation",
                   "unequal delays inside one group"]
    rule = ("one run = one generated machine with the seven callback groups populated densely or "
            "sparsely over machine / model / listeners (inline names and naming convention), driven "
            "through 5-25 events; every cb_begin/cb_end is matched against the reference's sequence of "
            "group instances (order inside a group free), with end-before-next-begin barriers and the "
            "state seen at cb_begin. Non-trivial = some executed transition ran >=3 populated groups; "
            "distinct = distinct trace digests among those.")
    assumptions = [
        "order inside one group is unconstrained (documented as unspecified)",
        "guard completion before the next phase is C05's clause, not checked here",
        "envelope: no nested sends, fault-free",
    ]

    def knobs(self, rnd, tier):
        dense = rnd.random() < 0.5
        return gen.knobs(async_modes=ASYNC_MODES, drivers=["sync", "sync", "inloop", "threads_in_turn"],
                         p_action=0.7 if dense else 0.25, p_state_action=0.6 if dense else 0.2,
                         p_conv=0.5 if dense else 0.15, p_validator=0.3, p_internal=0.2, p_self=0.25,
                         p_multi_event=0.4, p_unknown_event=0.05, p_multi_group_name=0.3,
                         p_attach_style=0.35, p_awaitable=0.2, p_prop_guard=0.15, p_from_any=0.15, p_event_obj=0.15, p_event_decl=0.15, p_decl_style=0.2, p_or_group=0.15, p_devent=0.15, p_multi_source=0.15, p_guard_any_value=0.25)

    def scenario(self, rnd, tier):
        sc = super().scenario(rnd, tier)
        prog = sc["programs"][0]
        if prog["model"].get("kind", "attr") == "attr" and rnd.random() < 0.15:
            prog["model"]["kind"] = "libmodel"  # the user's model class extends statemachine.model.Model
        plain = not any(prog.get(f) for f in ("any", "event_decl", "event_names")) and not any(
            t.get(f) for t in prog["trans"] for f in ("orgroup", "devent", "msrc"))
        if plain and rnd.random() < 0.15:
            self.drive_a_subclass(rnd, sc)
        if rnd.random() < 0.3:
            # the caller passes keyword arguments NAMED like the values the engine injects (``sm.go(event=
            # "cycle", source=...)``, expressible only through the bound event): they must neither decide
            # which event-named callbacks run nor replace what callbacks are given
            evs = sc["programs"][-1]["events"]
            sids = [x["id"] for x in sc["programs"][-1]["states"]]
            for o in sc["ops"]:
                if o["op"] == "send" and o.get("event") in evs and o.get("style", "send") in ("send", "call") \
                        and not o.get("kwargs") and rnd.random() < 0.4:
                    kw = {}
                    if rnd.random() < 0.7:
                        kw["event"] = rnd.choice(evs)
                    if rnd.random() < 0.4:
                        kw[rnd.choice(["source", "target", "state"])] = rnd.choice(sids)
                    if kw:
                        o["kwargs"] = kw
                        o["style"] = "call"
                        sc["reserved_kw"] = True
        return sc

    @staticmethod
    def drive_a_subclass(rnd, sc):
        """The machine that is driven is an instance of a SUBCLASS that adds states and transitions --
        some of them leaving inherited states -- with naming-convention callbacks of their own."""
        import copy

        from .isolation import make_subclass

        prog = sc["programs"][0]
        sub = make_subclass(rnd, prog, "S0", "simgen_s0")
        # an event that is named ONLY on a transition the subclass adds to an inherited state
        # (``Base.s1.to(x, event="hop")``): a declared event of the subclass like the others
        inh = [x["id"] for x in prog["states"] if not x.get("final")]
        sub["trans"].append({"src": rnd.choice(inh), "dst": rnd.choice([x["id"] for x in sub["states"]]),
                             "events": ["hop"]})
        sub["events"].append("hop")
        new_events = [e for e in sub["events"] if e not in prog["events"]]
        roles = ["machine", "model"] + list(sub["listeners"])
        for e in new_events + [rnd.choice(sub["events"])]:
            for nm, grp in ((f"before_{e}", "before"), (f"on_{e}", "on"), (f"after_{e}", "after")):
                cb = f"{rnd.choice(roles)}.{nm}"
                if rnd.random() < 0.6 and cb not in sub["cbs"] and f"machine.{nm}" not in sub["cbs"]:
                    sub["cbs"][cb] = {"group": grp, "sig": gen.basic_sig(rnd)}
        for c in sub["cbs"]:
            if not c.startswith("machine."):
                for table in (sc["beh"], sc["gv"], sc.get("gv_kind", {})):
                    if f"{prog['name']}/{c}" in table:
                        table[f"{sub['name']}/{c}"] = copy.deepcopy(table[f"{prog['name']}/{c}"])
        sc["programs"].append(sub)
        for o in sc["ops"]:
            if o["op"] == "new":
                o["prog"] = 1
        extra = []
        for o in sc["ops"][1:]:
            if o["op"] == "send" and new_events and rnd.random() < 0.4:
                extra.append({"op": "send", "inst": o["inst"], "event": rnd.choice(new_events),
                              "style": rnd.choice(["send", "call", "events", "allowed"])})
            extra.append(o)
        sc["ops"] = sc["ops"][:1] + extra
        for g in sc["gv"].values():
            while len(g) < len(sc["ops"]):
                g.append(g[-1])

    def nontrivial(self, sc, ev):
        groups = 0
        seen = {}
        for r in ev["res"]["trace"]:
            if r["k"] == "cb+" and r.get("g") not in ("cond", "unless"):
                seen.setdefault(r["e"], set()).add(r["g"])
        if any(len(v) >= 3 for v in seen.values()):
            return ev["res"]["digest"]
        del groups
        return None

    def counters(self, sc, ev):
        st = ev["res"]["stats"]
        m = ev["mstats"]
        return {"fault.virtual_delays": st.get("delays", 0), "probe.initial_activations": m.get("initial_execs", 0),
                "probe.group_instances_matched": m.get("items", 0),
                "fault.caller_kwargs_named_like_engine_values": sum(
                    1 for o in sc["ops"] if o["op"] == "send" and set(o.get("kwargs") or {}) & {
                        "event", "source", "target", "state"}),
                "fault.async_guard_start_permutations": st.get("perms", 0)}


@register
class C14(Campaign):
    pid = "C14"
    title = "Event results come only from before/on return values, by the documented rule"
    armed = {"op_result": "C14.result"}
    fault_kinds = ["async-completion-order != declaration order (seeded delays)", "nested sends (queued events return "
                   "values too)", "concurrent senders (threads pre-empted at seeded lines / asyncio tasks): provenance of "
                   "each send()'s return value"]
    rule = ("one run = one generated machine whose before/on callbacks (0, 1 or many per transition, "
            "inline / convention, machine / model / listener) return values of every kind, and whose "
            "guards, validators, exit, enter and after callbacks also return values that must be "
            "ignored; the value returned by every send is compared with the reference (before part then "
            "on part, each as a multiset; 0 -> None, 1 -> unwrapped). Non-trivial = some send returned a "
            "non-None result; distinct = distinct trace digests among those.")
    assumptions = ["order of values inside the before part and inside the on part is not constrained",
                   "a result is only judged when state, exception and callback sequence of the operation agree "
                   "with the reference (so that queue-order or selection defects are not reported here)",
                   "fault-free; nested sends present in about half of the runs (results of queued events must not "
                   "leak into, or replace, the result of the event that was sent)"]

    def knobs(self, rnd, tier):
        return gen.knobs(async_modes=ASYNC_MODES, drivers=["sync", "inloop"], p_action=0.6, p_ret=0.7,
                         p_conv=0.4, p_internal=0.2, p_self=0.2, p_multi_event=0.4,
                         allow=[False, True, True], p_unknown_event=0.1, senders=(0, 2), sends_per=(1, 2),
                         sends_jlt=(1, 2), p_attach_style=0.35, p_multi_group_name=0.3)

    def scenario(self, rnd, tier):
        if rnd.random() < 0.2:
            # results under concurrent senders: what a send() returns comes only from its own event
            from .concurrent import gen_c06

            sc = gen_c06(rnd, "threads" if rnd.random() < 0.6 else "asyncio", tier)
            sc["profile"] = "C14-concurrent"
            sc["cancel"] = False
            for sd in sc["senders"]:
                for s_ in sd["sends"]:
                    s_.pop("timeout", None)
            return sc
        sc = super().scenario(rnd, tier)
        prog = sc["programs"][0]
        # every callback of the other groups returns something too (must be ignored)
        for c, m in sorted(prog["cbs"].items()):
            if m["group"] in ("validators", "exit", "enter", "after") and rnd.random() < 0.7:
                full = f"{prog['name']}/{c}"
                rules = sc["beh"].setdefault(full, [{}])
                rules[-1]["ret"] = rnd.choice(["leak", 1, [9], {"k": 1}])
        return sc

    def classify(self, sc, res, findings):
        # a callback may RETURN an exception instance as an ordinary value: if the event raises that
        # class although nothing was expected to fail, the value was mishandled (it is C14's business)
        returned = {r_["ret"]["$exc"][0] for rules in sc["beh"].values() for r_ in rules
                    if isinstance(r_.get("ret"), dict) and "$exc" in r_["ret"]}
        for f in findings:
            if f["kind"] == "op_exc":
                d = f["detail"]
                if d.get("expected") is None and (d.get("actual") or {}).get("cls") in returned:
                    return [{"clause": "C14.result", "kind": "returned_exception_instance_raised", "op": f["op"],
                             "detail": d}], []
                break
            if f["kind"] in self.DESYNC:
                break
        return super().classify(sc, res, findings)

    def evaluate(self, sc):
        if sc.get("senders"):
            from . import concurrent

            res = concurrent.execute(sc)
            prog = sc["programs"][0]
            ok = "machine.on_transition" in prog["cbs"] and all(
                any(t["src"] == s_["id"] and e in t["events"] for t in prog["trans"])
                for s_ in prog["states"] for e in prog["events"])
            viol = concurrent.result_provenance(sc, res) if ok else []
            return {"violations": viol, "unarmed": [], "mstats": {}, "res": res, "concurrent": True}
        return super().evaluate(sc)

    def nontrivial(self, sc, ev):
        if ev.get("concurrent"):
            return ev["res"]["digest"] if any(r["k"] == "send-" and r["out"] != ["ret", None]
                                              for r in ev["res"]["trace"]) else None
        if any(o.get("res") is not None for o in ev["res"]["outs"]):
            return ev["res"]["digest"]
        return None

    def sample(self, sc, ev):
        if ev.get("concurrent"):
            return {"mode": sc["mode"], "senders": sc["senders"], "plan": sc.get("tplan"),
                    "digest": ev["res"]["digest"]}
        return super().sample(sc, ev)

    def counters(self, sc, ev):
        if ev.get("concurrent"):
            return {"probe.concurrent_senders_runs": 1,
                    "fault.preemptions": ev["res"]["stats"].get("switches", 0)}
        outs = ev["res"]["outs"]
        return {"probe.list_results": sum(1 for o in outs if isinstance(o.get("res"), list)),
                "probe.none_results": sum(1 for o in outs if o.get("res") is None),
                "fault.virtual_delays": ev["res"]["stats"].get("delays", 0)}
