"""C12: listeners and the model are first-class callback providers, attached once.

Callback names are distributed over {machine, model, constructor listeners, late listeners}; listeners
are attached (and re-attached) at seeded points of a history; several instances of one class with
different listener sets are driven in interleaved order; listener methods may be coroutines.  A
baseline with every non-machine callback removed must agree with the reference (so that selection,
ordering and results as such are someone else's business); the full run is then compared with the
reference's provider list (de-duplicated by object identity).
"""

import copy

from .. import gen
from .. import match
from ..campaign import Campaign
from ..campaign import register
from ..shrink import prune_names
from .storage import names_ok


def machine_only(sc):
    b = copy.deepcopy(sc)
    for p in b["programs"]:
        for c in [c for c in p["cbs"] if not c.startswith("machine.")]:
            del p["cbs"][c]
            b["beh"].pop(f"{p['name']}/{c}", None)
            b["gv"].pop(f"{p['name']}/{c}", None)
        prune_names(p)
    for i, op in enumerate(b["ops"]):
        if op["op"] == "add_listener":
            b["ops"][i] = {"op": "noop"}
    return b


@register
class C12(Campaign):
    pid = "C12"
    title = "Listeners and the model are first-class callback providers, attached once"
    technique = ("deterministic simulation: seeded attachment / re-attachment points in a history, several "
                 "instances interleaved, machine-only baseline, reference provider list")
    quick_runs = 2500
    thorough_runs = 40000
    fault_kinds = ["late-listener@op", "re-attach@op (same object again)", "several instances interleaved",
                   "distinct listener objects that compare and hash equal", "falsy listener objects (__len__ == 0 / __bool__ False)",
                   "listener objects of one class that differ in instance-level callbacks",
                   "two listener objects of one class in one machine, one callback being a staticmethod",
                   "listener attached first to a shallow copy (copy.copy) of the machine, then to the machine",
                   "guard name provided by several objects", "coroutine listener (constructor or late)"]
    rule = ("one run = a generated machine whose callback names (actions of every group, plain-name guards and "
            "validators) are spread over machine, model, 0-2 constructor listeners and 0-2 late listeners; 1-2 "
            "instances with different listener sets; a 5-20 operation history with add_listener and repeated "
            "add_listener at seeded points and interleaved sends to the instances. Compared with the reference "
            "provider list: from its attachment on every applicable method of every provider runs exactly once "
            "per group instance with the documented arguments, never before, never for another instance; a "
            "plain-name cond guard holds only if it holds on every provider. Non-trivial = callbacks of >=2 "
            "distinct non-machine providers were invoked; distinct = distinct trace digests.")
    assumptions = [
        "a baseline with all non-machine callbacks removed must agree with the reference",
        "outside the envelope (meaning not fixed by the statement): attaching from inside a callback, guard "
        "expressions on late listeners, an `unless` name provided by several objects",
        "no nested sends, fault-free",
    ]

    def scenario(self, rnd, tier):
        k = gen.knobs(listeners=(1, 4), p_model_cb=0.3, p_listener_cb=0.45, p_multi_guard_provider=0.35,
                      p_validator=0.25, rtc=[True, True, False], allow=[False, True], p_conv=0.4,
                      async_modes=["none", "none", "none", "all", "mixed", "one"], drivers=["sync"],
                      p_unknown_event=0.04, n_ops=(5, 18), p_ret=0.4, p_shared_name=0.35, p_prop_guard=0.15)
        sc = gen.gen_scenario(rnd, k, profile="C12")
        prog = sc["programs"][0]
        # distinct listener objects that compare equal (value-based __eq__): still distinct providers
        prog["listener_eq_all"] = rnd.random() < 0.2
        if prog["model"].get("kind", "attr") == "attr" and rnd.random() < 0.2:
            prog["model"]["kind"] = "libmodel"  # the user's model class extends statemachine.model.Model
        # listeners that are falsy objects (empty recorders defining __len__, or __bool__)
        prog["listener_falsy"] = {r_: rnd.choice(["len", "bool"]) for r_ in prog["listeners"] if rnd.random() < 0.2}
        ls = list(prog["listeners"])
        rnd.shuffle(ls)
        # constructor listeners: as few as the inline names allow; the rest is attached late
        ctor = list(ls)
        for role in ls:
            trial = [x for x in ctor if x != role]
            if rnd.random() < 0.6 and names_ok(prog, ["machine", "model"] + trial):
                ctor = trial
        late = [x for x in ls if x not in ctor]
        # a late listener must not provide `unless` names / expression operands (outside the envelope)
        exprn = set()
        for t in prog["trans"]:
            for e in list(t.get("cond", [])) + list(t.get("unless", [])):
                if not e.isidentifier():
                    from ..ref import _expr_names

                    exprn.update(_expr_names(e))
            exprn.update(t.get("unless", []))
        for role in late:
            for c in [c for c in prog["cbs"] if c.startswith(role + ".") and c.split(".", 1)[1] in exprn]:
                del prog["cbs"][c]
                sc["beh"].pop(f"{prog['name']}/{c}", None)
                sc["gv"].pop(f"{prog['name']}/{c}", None)
        if late and rnd.random() < 0.12:
            # the case the property names: a coroutine listener added to a machine that so far had only
            # synchronous callbacks
            for c, m in prog["cbs"].items():
                role = c.split(".", 1)[0]
                if role in late:
                    m["async"] = True
                else:
                    m.pop("async", None)
        if prog.get("listener_eq_all") and len(ctor) + len(late) > 2:
            # the library keeps attached listeners in a dict keyed by the objects: with more than two
            # equal-comparing listeners its own record collapses (C17's known finding), so this variant
            # stays at one attached + one new listener
            prog["listener_eq_all"] = False
        twin_role = None
        cands_ = [r_ for r_ in ctor if any(c.startswith(r_ + ".") and m["group"] not in ("cond", "unless", "validators")
                                          and not any(m.get(f) for f in ("prop", "partial", "only_for"))
                                          for c, m in prog["cbs"].items())]
        if cands_ and rnd.random() < 0.15 and not prog.get("listener_eq_all") and not prog.get("listener_eq"):
            # TWO listener objects of one class in the constructor's list; one of their callbacks is a
            # staticmethod (the same plain function on both objects): both are providers, both are called
            twin_role = rnd.choice(cands_)
            c_ = rnd.choice(sorted(c for c, m in prog["cbs"].items()
                                   if c.startswith(twin_role + ".") and m["group"] not in ("cond", "unless", "validators")
                                   and not any(m.get(f) for f in ("prop", "partial", "only_for"))))
            prog["cbs"][c_]["static"] = True
            prog["cbs"][c_]["sig"] = [gen.P("kw", "varkw")]
            prog["cbs"][c_].pop("awaitable", None)
            ctor.insert(ctor.index(twin_role) + 1, twin_role + "#2")
        is_async_ctor = any(m.get("async") for c, m in prog["cbs"].items()
                            if c.split(".", 1)[0] in ["machine", "model"] + ctor)
        new = sc["ops"][0]
        new["listeners"] = ctor
        if any(m.get("async") for m in prog["cbs"].values()):
            new["rtc"] = True
        sc["driver"] = rnd.choice(["sync", "inloop"]) if is_async_ctor else "sync"
        two = rnd.random() < 0.4
        out = [new]
        if two:
            nb = dict(new)
            nb["inst"] = "B"
            nb["listeners"] = [x for x in ctor if rnd.random() < 0.7 or not names_ok(
                prog, ["machine", "model"] + [y for y in ctor if y != x])]
            if not names_ok(prog, ["machine", "model"] + nb["listeners"]):
                nb["listeners"] = list(ctor)
            out.append(nb)
        if two:
            # two listener objects of ONE class, attached to different machines, that differ in instance-level
            # callbacks: what one of them carries says nothing about the other
            shared = [r_ for r_ in ctor if r_ in nb["listeners"]]
            if shared and rnd.random() < 0.5:
                role = rnd.choice(shared)
                for nm, grp, tag_ in (("on_exit_state", "exit", "B"), ("after_transition", "after", "A"),
                                      ("on_enter_state", "enter", "B")):
                    cb_ = f"{role}.{nm}"
                    if cb_ not in prog["cbs"] and rnd.random() < 0.6:
                        prog["cbs"][cb_] = {"group": grp, "sig": [gen.P("event"), gen.P("kw", "varkw")],
                                            "partial": True, "only_for": [tag_]}
        pending = list(late)
        attached = {"A": list(ctor), "B": list(nb["listeners"]) if two else []}
        shallow = (not two) and bool(late) and not is_async_ctor and rnd.random() < 0.2 \
            and not prog.get("listener_eq_all")  # (copies of equal-comparing listeners: C17's known finding)
        if shallow:
            # a shallow copy shares the listener OBJECTS with the original; what is attached to one
            # machine is still a per-machine matter.  The copy is never driven here.
            out.append({"op": "clone", "inst": "A", "as": "S", "how": "copy"})
        for op in sc["ops"][1:]:
            inst = rnd.choice(["A", "B"]) if two else "A"
            r = rnd.random()
            if pending and r < 0.25:
                role = pending.pop()
                if shallow and rnd.random() < 0.7:
                    out.append({"op": "add_listener", "inst": "S", "listeners": [role]})
                roles_ = [role]
                if attached[inst] and rnd.random() < 0.4 and not prog.get("listener_eq_all"):
                    # re-attaching the whole (grown) list in one call: attached ones first, new ones after
                    roles_ = rnd.sample(attached[inst], rnd.randint(1, len(attached[inst]))) + [role]
                    if pending and rnd.random() < 0.5:
                        extra_role = pending.pop()
                        roles_.append(extra_role)
                        attached[inst].append(extra_role)
                out.append({"op": "add_listener", "inst": inst, "listeners": roles_})
                attached[inst].append(role)
            elif attached[inst] and r < 0.35 and not prog.get("listener_eq_all"):
                out.append({"op": "add_listener", "inst": inst, "listeners": [rnd.choice(attached[inst])],
                            "again": True})
            op = dict(op)
            op["inst"] = inst
            out.append(op)
        sc["ops"] = out
        for c in sc["gv"]:
            while len(sc["gv"][c]) < len(out):
                sc["gv"][c].append(rnd.getrandbits(len(prog["states"])))
        return sc

    def evaluate(self, sc):
        out = {"violations": [], "unarmed": [], "mstats": {}, "res": None, "evals": 1, "c12": {}}
        prog0 = sc["programs"][0]
        for o in sc["ops"]:
            if o["op"] == "new" and not names_ok(prog0, ["machine", "model"] + list(o.get("listeners", []))):
                # (only reachable through minimisation) an inline name without a construction-time
                # provider is a definition error, not a scenario of this campaign
                out["res"] = {"trace": [], "outs": [], "stats": {}, "digest": "invalid", "never_awaited": []}
                out["unarmed"].append("invalid")
                return out
        b = machine_only(sc)
        bres = self.execute(b)
        bm = match.Matcher(b, bres)
        bf = bm.run(stop_at_first=True)
        out["res"] = bres
        out["mstats"] = bm.stats
        if bf:
            out["unarmed"].append("baseline:" + bf[0]["kind"])
            out["c12"]["probe.baseline_not_in_step_with_reference(skipped)"] = 1
            return out
        res = self.execute(sc)
        m = match.Matcher(sc, res)
        f = m.run(stop_at_first=False)
        out.update({"res": res, "mstats": m.stats, "evals": 2})
        prog = sc["programs"][0]
        for x in f:
            kind = x["kind"]
            clause = None
            if kind.startswith("seq.") or kind in ("op_result", "nested_count", "cb_raised"):
                clause = "C12.provider_calls"
            elif kind.startswith("bound."):
                clause = "C12.argument_injection"
            elif kind in ("op_state", "op_exc", "model_field"):
                clause = "C12.guards_and_validators_on_providers"
            elif kind == "cross_instance":
                clause = "C12.cross_instance"
            if clause is None:
                out["unarmed"].append(kind)
                continue
            d = dict(x["detail"])
            d.update(self.context(sc, x["op"], d.get("cb")))
            out["violations"].append({"clause": clause, "kind": kind, "op": x["op"], "detail": d})
            break
        if not out["violations"] and res["never_awaited"]:
            out["violations"].append({"clause": "C12.provider_calls", "kind": "never_awaited", "op": None,
                                      "detail": dict({"warnings": res["never_awaited"][:2]},
                                                     **self.context(sc, None, None))})
        return out

    def context(self, sc, n, cb):
        """Facts used to recognise known findings: is a coroutine provider attached late to a machine
        that was built with synchronous callbacks only?"""
        prog = sc["programs"][0]
        ctx = {}
        new = {o["inst"]: o for o in sc["ops"] if o["op"] == "new"}
        for o in sc["ops"]:
            if o["op"] == "clone" and o["inst"] in new:
                new[o["as"]] = new[o["inst"]]
        late_async = False
        for o in sc["ops"]:
            if o["op"] == "add_listener":
                ctor_roles = ["machine", "model"] + list(new[o["inst"]].get("listeners", []))
                ctor_async = any(m.get("async") for c, m in prog["cbs"].items() if c.split(".", 1)[0] in ctor_roles)
                if not ctor_async and any(m.get("async") for c, m in prog["cbs"].items()
                                          if c.split(".", 1)[0] in o["listeners"]):
                    late_async = True
        ctx["async_listener_added_to_sync_machine"] = late_async
        return ctx

    def nontrivial(self, sc, ev):
        roles = set()
        for r in ev["res"]["trace"]:
            if r["k"] == "cb+":
                role = r["c"].split("/", 1)[1].split(".", 1)[0]
                if role != "machine":
                    roles.add(role)
        if ev.get("evals") == 2 and len(roles) >= 2:
            return ev["res"]["digest"]
        return None

    def counters(self, sc, ev):
        c = dict(ev.get("c12", {}))
        for o in sc["ops"]:
            if o["op"] == "add_listener":
                c["fault.re-attach" if o.get("again") else "fault.late-listener"] = \
                    c.get("fault.re-attach" if o.get("again") else "fault.late-listener", 0) + 1
        if any(o.get("inst") == "B" for o in sc["ops"]):
            c["probe.two_instances"] = 1
        if any(o["op"] == "clone" for o in sc["ops"]):
            c["fault.shallow-copy-sharing-listener-objects"] = 1
        if self.context(sc, None, None)["async_listener_added_to_sync_machine"]:
            c["fault.async-listener-added-to-sync-machine"] = 1
        return c

    def signature(self, v, sc):
        sig = super().signature(v, sc)
        sig["async_listener_added_to_sync_machine"] = (v.get("detail") or {}).get(
            "async_listener_added_to_sync_machine")
        return sig
