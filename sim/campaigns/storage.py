"""C10 (the current state is exactly what the user's model stores) and
C11 (initial activation happens once; a stored state is resumed untouched).

The user's model is the machine's *storage*: the only thing that survives a restart.  The simulator
owns it: external writers interleaved with events, invalid writes, storage errors at the k-th
write, and restarts (a new machine over the surviving model) at arbitrary points of a history.
"""

import copy

from .. import gen
from ..campaign import Campaign
from ..campaign import register

VALUE_KINDS = ["str", "emptystr", "int0", "negint", "enum", "enum0", "tuple", "bool", "float0", "mixed"]
MODEL_KINDS = ["attr", "attr", "noattr", "classdefault", "property", "property", "falsy_len", "falsy_bool", "none"]


def assign_values(rnd, prog, kind):
    states = prog["states"]
    n = len(states)
    order = list(range(n))
    rnd.shuffle(order)
    if kind == "str":
        return
    if kind == "emptystr":
        states[order[0]]["value"] = ""
        return
    if kind == "int0":
        for k, i in enumerate(order):
            states[i]["value"] = k  # some state gets 0
        return
    if kind == "negint":
        for k, i in enumerate(order):
            states[i]["value"] = k - 2
        return
    if kind in ("enum", "enum0"):
        name = prog["name"] + "_E"
        base = 0 if kind == "enum0" else 1
        members = [[f"K{k}", k + base] for k in range(n)]
        prog["enums"] = [{"name": name, "members": members}]
        for k, i in enumerate(order):
            states[i]["value"] = {"$en": [name, f"K{k}"]}
        return
    if kind == "tuple":
        for k, i in enumerate(order):
            states[i]["value"] = {"$tu": []} if k == 0 else {"$tu": [k, "x"]}
        return
    if kind == "bool" and n == 2:
        states[order[0]]["value"] = False
        states[order[1]]["value"] = True
        return
    if kind == "float0":
        for k, i in enumerate(order):
            states[i]["value"] = float(k) / 2
        return
    # mixed
    pool = [0, "", {"$tu": []}, -1, "zz", 7, {"$tu": [1]}]
    rnd.shuffle(pool)
    for k, i in enumerate(order):
        if k < len(pool) and rnd.random() < 0.7:
            states[i]["value"] = pool[k]


def names_ok(prog, roles):
    """Every inline callback name is provided by at least one of ``roles`` (else InvalidDefinition)."""
    from ..ref import _expr_names

    have = {c.split(".", 1)[1] for c in prog["cbs"] if c.split(".", 1)[0] in roles}
    for t in prog["trans"]:
        for g in ("validators", "cond", "unless", "before", "on", "after"):
            for e in t.get(g, []):
                if any(n not in have for n in _expr_names(e)):
                    return False
    for s in prog["states"]:
        for g in ("enter", "exit"):
            if any(n not in have for n in s.get(g, [])):
                return False
    return True


def count_writes(execs):
    n = 0
    for ex in execs:
        if ex.get("dst") is not None:
            n += 1
        for it in ex["items"]:
            for m in it["members"]:
                n += count_writes(m.get("nested") or [])
    return n


def value_of(prog, sid):
    s = next(x for x in prog["states"] if x["id"] == sid)
    return s["id"] if s.get("value") is None else s["value"]


@register
class C10(Campaign):
    pid = "C10"
    title = "The current state is exactly what the user's model stores"
    armed = {"op_state": "C10.current_state", "model_field": "C10.model_field", "op_exc": "C10.exception",
             "view_vs_model": "C10.view_equals_model"}
    quick_runs = 4000
    thorough_runs = 80000
    fault_kinds = ["write of a valid value from inside a callback (before / after the engine's own write)",
                   "nested events (queued or depth-first) between the writes",
                   "external-write-valid", "external-write-falsy", "external-write-unmapped (setter)",
                   "external-write-foreign-State-object (current_state = State(value=v), v mapped or not)",
                   "direct-model-write-unmapped", "storage-setter-raises@k", "falsy-model-object",
                   "falsy-start_value"]
    rule = ("one run = a generated machine whose state values are drawn from str, '', ints incl. 0 and "
            "negatives, enum members, tuples incl. (), bools, floats incl. 0.0; a model drawn from {default, "
            "plain attribute, no attribute, class-level default, property-backed store, falsy via __len__/"
            "__bool__}; a state_field name; an optional start_value (falsy ones included); a 5-25 operation "
            "history interleaving events with external writes (model attribute, current_state_value, "
            "current_state; valid, falsy and unmapped values) and storage errors at the k-th write. After "
            "every operation the user's model field, current_state, current_state_value, is_active of every "
            "state and `sm.model is user_model` are compared with the reference. Non-trivial = the history "
            "contains an external write or a falsy value/model/start_value; distinct = distinct trace digests.")
    assumptions = [
        "guards/validators are absent (C01's subject); callbacks are few and fault-free",
        "a state mismatch is only judged in operations whose callback sequence agrees with the reference",
        "after an injected storage error only consistency (view == stored value) is demanded",
    ]

    def scenario(self, rnd, tier):
        k = gen.knobs(p_cond=0.0, p_unless=0.0, p_validator=0.0, p_action=0.15, p_state_action=0.15,
                      p_conv=0.1, listeners=(0, 1), rtc=[True, True, False], allow=[False, True],
                      async_modes=["none", "none", "none", "all", "mixed"], drivers=["sync", "sync", "inloop"],
                      p_unknown_event=0.05, p_kwargs=0.1, value_kinds=["id"], p_ret=0.2)
        prog = gen.gen_program(rnd, k)
        kind = rnd.choice(VALUE_KINDS)
        assign_values(rnd, prog, kind)
        if len(prog["states"]) >= 2 and rnd.random() < 0.3:
            # human-readable names need not be unique: identity of a state is its id/value
            for s_ in rnd.sample(prog["states"], 2):
                s_["name"] = "Same name"
        mk = rnd.choice(MODEL_KINDS)
        field = "state" if mk == "none" else rnd.choice(["state", "state", "status", "st_x"])
        prog["model"] = {"kind": mk, "field": field}
        if mk == "none":
            for c in [c for c in prog["cbs"] if c.startswith("model.")]:
                del prog["cbs"][c]
            from ..shrink import prune_names

            prune_names(prog)
        mode = rnd.choice(k["async_modes"])
        gen.set_async(rnd, prog, mode)
        is_async = any(m.get("async") for m in prog["cbs"].values())
        ops = gen.gen_ops(rnd, prog, k)
        if is_async:
            ops[0]["rtc"] = True
        if rnd.random() < 0.4:
            sid = rnd.choice(prog["states"])["id"]
            ops[0]["start_value"] = value_of(prog, sid)
        # interleave external writes (async machines are activated explicitly first: what a write
        # *before* the deferred activation means is not fixed by the statement)
        out = [ops[0]]
        if is_async:
            out.append({"op": "activate", "inst": "A"})
        pending_invalid = False
        ids = [s["id"] for s in prog["states"]]
        for op in ops[1:]:
            r = rnd.random()
            if not pending_invalid and mk != "none" and rnd.random() < 0.1:
                # re-attach: a new machine over the same model must read what is stored there
                n2 = dict(ops[0])
                n2["keep_model"] = True
                if rnd.random() < 0.5:
                    n2.pop("start_value", None)
                out.append(n2)
            if pending_invalid or r < 0.3:
                w = rnd.random()
                sid = rnd.choice(ids)
                if pending_invalid or w < 0.35:
                    out.append({"op": "write", "inst": "A", "how": "model", "value": value_of(prog, sid)})
                    pending_invalid = False
                elif w < 0.6:
                    out.append({"op": "write", "inst": "A", "how": "csv", "value": value_of(prog, sid)})
                elif w < 0.75:
                    out.append({"op": "write", "inst": "A", "how": "cs", "state_id": sid, "value": None})
                elif w < 0.9:
                    out.append({"op": "write", "inst": "A", "how": "csv",
                                "value": rnd.choice(["nope", 99, -77, {"$tu": [9, 9]}])})
                else:
                    out.append({"op": "write", "inst": "A", "how": "model",
                                "value": rnd.choice(["nope", 99, -77, {"$tu": [9, 9]}])})
                    pending_invalid = rnd.random() < 0.7
            out.append(op)
        # some callbacks send nested events and / or write a valid value into the model themselves
        eff = gen.choose_effectful(rnd, prog, rnd.randint(0, 3), ("before", "exit", "on", "enter", "after"),
                                   roles=["machine", "model"] + list(ops[0].get("listeners", [])))
        senders = [c for c in eff if rnd.random() < 0.6]
        for c in senders:
            gen.ensure_machine_param(prog, c)
        if is_async:
            for c in eff:
                prog["cbs"][c]["async"] = True
        beh, gv = gen.gen_behaviours(rnd, prog, k, len(out), senders)
        for c in eff:
            if mk != "none" and (c not in senders or rnd.random() < 0.4):
                full = f"{prog['name']}/{c}"
                rules = beh.setdefault(full, [{}])
                rules[-1]["write"] = {"value": value_of(prog, rnd.choice(ids))}
        sc = {"profile": "C10", "programs": [prog], "beh": beh, "gv": gv, "ops": out,
              "driver": rnd.choice(k["drivers"]) if is_async else "sync", "perm_seed": rnd.randrange(1 << 30),
              "observe_more": True, "value_kind": kind}
        if mk == "property" and rnd.random() < 0.5 and not eff:
            sc["storage_faults"] = {"A": sorted(rnd.sample(range(1, 12), rnd.randint(1, 2)))}
        for o in sc["ops"]:
            if o["op"] == "write" and o.get("how") == "csv" and rnd.random() < 0.35:
                o["how"] = "csobj"
        # make sure invalid values are really unmapped
        vals = {repr(value_of(prog, s)) for s in ids}
        sc["ops"] = [o for o in sc["ops"] if not (o["op"] == "write" and o.get("how") != "cs"
                                                  and repr(o["value"]) in ("'nope'", "99", "-77")
                                                  and repr(o["value"]) in vals)]
        return sc

    def classify(self, sc, res, findings):
        # a state mismatch in an operation whose callback SEQUENCE also deviates is someone else's
        # business (queue order, callback order): the run stops being judged there
        bad_ops = {f["op"] for f in findings if f["kind"].startswith("seq.") or f["kind"] == "nested_count"}
        kept = []
        for f in findings:
            if f["op"] in bad_ops:
                kept.append({"kind": "harness.other_property", "op": f["op"], "detail": {}})
                break
            kept.append(f)
        return super().classify(sc, res, kept)

    DESYNC = Campaign.DESYNC + ("harness.other_property",)

    def evaluate(self, sc):
        prog = sc["programs"][0]
        if any(m_.get("async") for m_ in prog["cbs"].values()):
            # envelope (also enforced on minimisation candidates): an async machine is activated
            # explicitly right after its first construction, before anything is written
            ops = sc["ops"]
            if len(ops) > 1 and ops[1]["op"] != "activate":
                return {"violations": [], "unarmed": ["invalid"], "mstats": {},
                        "res": {"trace": [], "outs": [], "stats": {}, "digest": "invalid", "never_awaited": []}}
        return super().evaluate(sc)

    def extra_checks(self, sc, res, m, unarmed):
        if any(u in self.DESYNC for u in unarmed):
            return []
        prog = sc["programs"][0]
        for o in res["outs"]:
            if o.get("skipped"):
                continue
            obs = o.get("obs") or {}
            exp = m.exp_by_op.get(o["n"])
            if exp is None or obs.get("absent"):
                continue
            es = exp.get("state")
            if obs.get("model_is") is False:
                return [{"clause": "C10.model_identity", "kind": "model_replaced", "op": o["n"],
                         "detail": {"model_kind": prog["model"]["kind"]}}]
            if isinstance(es, str) and "active" in obs and (exp.get("exc") or {}).get("cls") != "SimStorageError":
                if obs["active"] != [es]:
                    return [{"clause": "C10.one_active_state", "kind": "active", "op": o["n"],
                             "detail": {"expected": [es], "actual": obs["active"]}}]
                want = value_of(prog, es)
                from ..match import _encv, canon

                if canon(obs.get("csv")) != canon(_encv(want)):
                    return [{"clause": "C10.current_state", "kind": "csv", "op": o["n"],
                             "detail": {"expected": want, "actual": obs.get("csv")}}]
        return []

    def nontrivial(self, sc, ev):
        prog = sc["programs"][0]
        falsy = any(not x for x in [value_of(prog, s["id"]) for s in prog["states"]]
                    if not isinstance(x, dict)) or prog["model"]["kind"] in ("falsy_len", "falsy_bool")
        if falsy or any(o["op"] == "write" for o in sc["ops"]):
            return ev["res"]["digest"]
        return None

    def counters(self, sc, ev):
        prog = sc["programs"][0]
        c = {"probe.model_kind." + prog["model"]["kind"]: 1, "probe.value_kind." + sc.get("value_kind", "?"): 1,
             "fault.storage-setter-raises": ev["res"]["stats"].get("storage_faults", 0)}
        for o in sc["ops"]:
            if o["op"] == "write":
                c["fault.external-write-" + o["how"]] = c.get("fault.external-write-" + o["how"], 0) + 1
            if o.get("keep_model"):
                c["fault.re-attach-over-stored-value"] = c.get("fault.re-attach-over-stored-value", 0) + 1
        if sc["ops"][0].get("start_value") is not None:
            c["probe.start_value"] = 1
            if not sc["ops"][0]["start_value"] or sc["ops"][0]["start_value"] == {"$tu": []}:
                c["fault.falsy-start_value"] = 1
        return c

    def signature(self, v, sc):
        sig = super().signature(v, sc)
        prog = sc["programs"][0]
        sig["model_kind"] = prog["model"]["kind"]
        sv = sc["ops"][0].get("start_value")
        sig["falsy_start_value"] = sv is not None and (not sv or sv == {"$tu": []})
        return sig


@register
class C11(Campaign):
    pid = "C11"
    title = "Initial activation happens once; a stored state is resumed untouched"
    quick_runs = 3000
    thorough_runs = 60000
    fault_kinds = ["restart@op (new machine over the surviving model)", "restart-after-failed-transition",
                   "raise@initial-activation (sync constructor / deferred async activation), then restart + re-activation",
                   "re-activation (any number)", "concurrent activation (two tasks)",
                   "second instance of the same class over an empty model with another start_value",
                   "second instance whose own listener brings the only coroutine callbacks (other engine than the first)",
                   "snapshot of the model<->machine cycle taken from inside an enter callback of the initial activation",
                   "first events from two tasks at once", "nested send from the initial enter callback",
                   "start_value on restart"]
    rule = ("one run = a generated machine driven through a history in which, at seeded points, the machine "
            "object is dropped and a new one is built over the same model (with/without start_value, with the "
            "same or a larger listener set), activate_initial_state() is called any number of times, and (async) "
            "activation / first events are issued from two tasks at once. Judged: construction, activation and "
            "the first send after each construction against the reference whose only durable variable is the "
            "model field (callback sequence incl. zero callbacks on resume, state, exception, number of writes "
            "of the model field). Non-trivial = the history contains a restart over a non-empty model or a "
            "re-activation; distinct = distinct trace digests.")
    assumptions = [
        "only construction / activation ops and the first send after each construction are judged; the rest "
        "of the history must agree with the reference (otherwise the run is another property's business)",
        "model writes are counted through a property-backed model (about a third of the runs)",
    ]

    def scenario(self, rnd, tier):
        k = gen.knobs(p_validator=0.1, senders=(0, 2), sends_per=(1, 2), sends_jlt=(1, 2), listeners=(0, 2),
                      rtc=[True, True, False], allow=[False, True, True],
                      async_modes=["none", "none", "all", "mixed", "actions"], drivers=["sync"],
                      p_unknown_event=0.03, n_ops=(4, 14), p_state_action=0.6, p_conv=0.35, p_cond=0.3,
                      p_unless=0.15)
        sc = gen.gen_scenario(rnd, k, profile="C11")
        prog = sc["programs"][0]
        is_async = any(m.get("async") for m in prog["cbs"].values())
        if rnd.random() < 0.35:
            prog["model"] = {"kind": "property", "field": "state"}
        if rnd.random() < 0.3:
            kind = rnd.choice(["int0", "emptystr", "str", "enum0"])
            assign_values(rnd, prog, kind)
        ops = sc["ops"]
        first = ops[0]
        if rnd.random() < 0.25:
            first["start_value"] = value_of(prog, rnd.choice(prog["states"])["id"])
        if first.get("listeners") and rnd.random() < 0.5 and names_ok(prog, ["machine", "model"] + first["listeners"][:1]):
            first["listeners"] = first["listeners"][:1]
        if is_async and not any(m.get("async") for c, m in prog["cbs"].items()
                                if c.split(".", 1)[0] in ["machine", "model"] + list(first.get("listeners", []))):
            # the coroutine callbacks of the program live on listeners this instance would not attach: the
            # rest of the scenario (driver, concurrent activations) is laid out for an async machine
            first["listeners"] = list(first.get("listeners", [])) + sorted(
                {c.split(".", 1)[0] for c, m in prog["cbs"].items() if m.get("async")}
                - {"machine", "model"} - set(first.get("listeners", [])))
        out = [first]
        for op in ops[1:]:
            r = rnd.random()
            if r < 0.18:
                n = dict(first)
                n["keep_model"] = True
                n.pop("start_value", None)
                if rnd.random() < 0.4:
                    n["start_value"] = value_of(prog, rnd.choice(prog["states"])["id"])
                n["listeners"] = list(prog["listeners"]) if rnd.random() < 0.5 else list(first.get("listeners", []))
                out.append(n)
            elif r < 0.30:
                for _ in range(rnd.randint(1, 3)):
                    out.append({"op": "activate", "inst": "A"})
            out.append(op)
        if is_async:
            sc["driver"] = rnd.choice(["sync", "inloop", "inloop"])
            if sc["driver"] == "inloop":
                # concurrent activation / concurrent first events right after a construction
                for i in range(len(out) - 1, -1, -1):
                    if out[i]["op"] == "new" and rnd.random() < 0.5:
                        if rnd.random() < 0.5:
                            out.insert(i + 1, {"op": "activate2", "inst": "A"})
                        elif i + 1 < len(out) and out[i + 1]["op"] == "send":
                            out[i + 1] = {"op": "send2", "inst": "A", "a": out[i + 1],
                                          "b": {"op": "send", "inst": "A", "event": rnd.choice(prog["events"])}}
        if rnd.random() < 0.3:
            # another instance of the same class over its own, empty model and with another start_value:
            # it must enter ITS initial / start_value state exactly once, whatever A did before
            nb = dict(first)
            nb["inst"] = "B"
            nb.pop("keep_model", None)
            nb.pop("start_value", None)
            if rnd.random() < 0.6:
                nb["start_value"] = value_of(prog, rnd.choice(prog["states"])["id"])
            roles_r = [r_ for r_ in prog["listeners"] if any(c.startswith(r_ + ".") for c in prog["cbs"])]
            roles_r = [r_ for r_ in roles_r if all(
                names_ok(prog, ["machine", "model"] + [x for x in o_.get("listeners", []) if x != r_])
                for o_ in out if o_["op"] == "new")]
            if not is_async and roles_r and rnd.random() < 0.5:
                # the two instances differ in what their OWN listeners bring: B's extra listener has coroutine
                # callbacks (B runs on the async engine, activation deferred), A and its restarts have none
                r_async = rnd.choice(roles_r)
                for c, m_ in prog["cbs"].items():
                    if c.startswith(r_async + "."):
                        m_["async"] = True
                        m_.pop("prop", None)
                for o_ in out:
                    if o_["op"] == "new":
                        o_["listeners"] = [x for x in o_.get("listeners", []) if x != r_async]
                nb["listeners"] = [x for x in nb.get("listeners", []) if x != r_async] + [r_async]
                nb["rtc"] = True
                sc["engines_differ"] = True
            at = rnd.randrange(1, len(out) + 1)
            extra = [nb]
            if is_async and sc["driver"] == "inloop" and rnd.random() < 0.5:
                extra.append({"op": "activate", "inst": "B"})
            for _ in range(rnd.randint(1, 3)):
                extra.append({"op": "send", "inst": "B", "event": rnd.choice(prog["events"])})
            out = out[:at] + extra + out[at:]
        sc["ops"] = out
        n = len(out)
        for c in sc["gv"]:
            while len(sc["gv"][c]) < n:
                sc["gv"][c].append(rnd.getrandbits(len(prog["states"])))
        # a failing initial activation: the exception reaches the caller, the initial state is already
        # stored (enter => target), and activating / resuming afterwards runs nothing again
        init_id = next(s_["id"] for s_ in prog["states"] if s_.get("initial"))
        init_enters = sorted(c for c, m_ in prog["cbs"].items() if m_["group"] == "enter" and (
            c.split(".", 1)[1] in ("on_enter_state", f"on_enter_{init_id}")
            or c.split(".", 1)[1] in next(s_ for s_ in prog["states"] if s_["id"] == init_id).get("enter", [])))
        if (is_async and init_enters and prog["model"].get("kind") != "none" and first.get("start_value") is None
                and not any(o.get("keep_model") or o.get("inst") == "B" for o in out) and rnd.random() < 0.3):
            # the model holds its machine and is copied (an undo history) from INSIDE an enter callback of the
            # initial activation: the snapshot holds the initial state, nothing is pending on it
            first["model_holds_machine"] = True
            c = rnd.choice(init_enters)
            ep = next((i for i, o in enumerate(out) if i > 0 and o.get("inst") == "A"
                       and o["op"] in ("send", "activate", "send2", "activate2")), None)
            if ep is not None:
                sc["beh"].setdefault(f"{prog['name']}/{c}", []).insert(
                    0, {"ep": ep, "j": 0, "dp": 0, "snapshot": {"as": "S", "how": rnd.choice(["deepcopy", "pickle"])}})
                tail = [{"op": "activate", "inst": "S"}] if rnd.random() < 0.6 else []
                tail += [{"op": "send", "inst": "S", "event": rnd.choice(prog["events"])},
                         {"op": "activate", "inst": "S"}]
                at = rnd.randrange(ep + 1, len(out) + 1)
                out = out[:at] + tail + out[at:]
                sc["ops"] = out
                sc["snapshot_from_callback"] = True
                for g_ in sc["gv"].values():
                    while len(g_) < len(out):
                        g_.append(g_[-1])
        enters = sorted(c for c, m_ in prog["cbs"].items() if m_["group"] == "enter")
        if enters and rnd.random() < 0.2 and not any(o.get("inst") in ("B", "S") for o in out):
            c = rnd.choice(enters)
            ep = 0
            if is_async:
                ep = next((i for i, o in enumerate(out) if i > 0 and o.get("inst") == "A"
                           and o["op"] in ("send", "activate", "send2", "activate2")), 1)
            sc["beh"].setdefault(f"{prog['name']}/{c}", []).insert(
                0, {"ep": ep, "j": 0, "dp": 0, "raise": rnd.choice(["SimFault", "SimBaseFault", "SimRuntime", "SimAttr"]), "_fault": True})
            sc["activation_fault"] = True
            # make sure something follows: a restart over the surviving model and a re-activation
            n2 = dict(first)
            n2["keep_model"] = True
            n2.pop("start_value", None)
            sc["ops"] = out[:ep + 1] + [{"op": "activate", "inst": "A"}, n2, {"op": "activate", "inst": "A"}] \
                + out[ep + 1:]
            n = len(sc["ops"])
            for g_ in sc["gv"].values():
                while len(g_) < n:
                    g_.append(g_[-1])
            for c2, rules in sc["beh"].items():
                for r_ in rules:
                    if r_.get("ep") is not None and r_["ep"] > ep and not r_.get("_fault"):
                        r_["ep"] += 3
        return sc

    # which ops are C11's
    def judged(self, sc):
        ops = sc["ops"]
        j = set()
        for i, op in enumerate(ops):
            if op["op"] in ("new", "activate", "activate2", "send2"):
                j.add(i)
                if op["op"] == "new" or (op["op"] == "activate" and op.get("inst") == "S"):
                    for k2 in range(i + 1, len(ops)):
                        if ops[k2]["op"] in ("send", "send2") and ops[k2].get("inst") == op.get("inst"):
                            j.add(k2)
                            break
        return j

    def classify(self, sc, res, findings):
        judged = self.judged(sc)
        viol, unarmed = [], []
        for f in findings:
            kind = f["kind"]
            n = f["op"]
            if n in judged and kind in ("op_state", "model_field", "op_exc", "seq.extra", "seq.missing",
                                        "seq.nested_inside", "barrier"):
                opk = sc["ops"][n]["op"]
                if opk == "new":
                    clause = "C11.construction"
                elif opk in ("activate", "activate2"):
                    clause = "C11.reactivation"
                else:
                    clause = "C11.first_event_after_construction"
                d = dict(f["detail"])
                d["op_kind"] = opk
                d["resume"] = bool(sc["ops"][n].get("keep_model"))
                viol.append({"clause": clause, "kind": kind, "op": n, "detail": d})
                break
            unarmed.append(kind)
            if kind in self.DESYNC:
                break
        return viol, unarmed

    def extra_checks(self, sc, res, m, unarmed):
        if any(u in self.DESYNC for u in unarmed):
            return []
        # resume must not write the model field at all
        from ..match import split_ops

        segs = split_ops(res["trace"])
        for n, op in enumerate(sc["ops"]):
            if op["op"] in ("new", "activate") and n in m.exp_by_op:
                exp = m.exp_by_op[n]
                writes = [r for r in segs.get(n, []) if r["k"] == "wr"]
                expected_writes = count_writes(exp["execs"])
                if sc["programs"][0]["model"]["kind"] == "property" and len(writes) != expected_writes \
                        and exp.get("exc") is None:
                    return [{"clause": "C11.stored_value_untouched", "kind": "writes", "op": n,
                             "detail": {"expected_writes": expected_writes, "writes": [w["v"] for w in writes],
                                        "resume": bool(op.get("keep_model"))}}]
        return []

    def nontrivial(self, sc, ev):
        ops = sc["ops"]
        if any(o["op"] in ("activate", "activate2", "send2") or o.get("keep_model") for o in ops):
            return ev["res"]["digest"]
        return None

    def counters(self, sc, ev):
        c = {}
        for o in sc["ops"]:
            if o.get("keep_model"):
                c["fault.restart"] = c.get("fault.restart", 0) + 1
                if o.get("start_value") is not None:
                    c["fault.restart_with_start_value"] = c.get("fault.restart_with_start_value", 0) + 1
            if o["op"] == "activate":
                c["fault.reactivation"] = c.get("fault.reactivation", 0) + 1
            if o["op"] == "activate2":
                c["fault.concurrent_activation"] = c.get("fault.concurrent_activation", 0) + 1
            if o["op"] == "send2":
                c["fault.concurrent_first_events"] = c.get("fault.concurrent_first_events", 0) + 1
        outs = ev["res"]["outs"]
        for i, o in enumerate(sc["ops"]):
            if o.get("keep_model") and i > 0 and i - 1 < len(outs) and outs[i - 1].get("exc"):
                c["fault.restart_after_failed_op"] = c.get("fault.restart_after_failed_op", 0) + 1
        m = ev["mstats"]
        c["probe.initial_activations"] = m.get("initial_execs", 0)
        if sc.get("activation_fault") and ev["res"]["stats"].get("raises"):
            c["fault.raise@initial-activation"] = 1
        return c

    def signature(self, v, sc):
        sig = super().signature(v, sc)
        d = v.get("detail", {})
        sig["op_kind"] = d.get("op_kind")
        sig["resume"] = d.get("resume")
        sig["rtc"] = sc["ops"][0].get("rtc", True)
        return sig
