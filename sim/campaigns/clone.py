"""C17: deepcopy / pickle clones are equivalent and independent.

A *snapshot* fault: at a seeded point of a history (also before the deferred activation of an async
machine) the machine is copied with ``copy.deepcopy`` or a pickle round-trip; afterwards original and
clone receive different suffixes, interleaved.  Two baselines without any copying — the original
driven through its own suffix, and the original driven through the clone's suffix — must agree with
the reference; every divergence of the run with the copy is then the copy's doing.
"""

import copy

from .. import gen
from .. import match
from ..campaign import Campaign
from ..campaign import register


def lineage(sc, which):
    """Instances whose operations a copy named ``which`` has 'lived through': itself and its ancestors
    up to the moment each copy was taken."""
    parent = {o["as"]: o["inst"] for o in sc["ops"] if o["op"] == "clone"}
    chain = [which]
    while chain[-1] in parent:
        chain.append(parent[chain[-1]])
    return chain, parent


def baseline(sc, which):
    """The history instance ``which`` would have had without any copying, replayed on one machine 'A':
    its ancestors' operations up to each copy point, then its own."""
    b = copy.deepcopy(sc)
    chain, parent = lineage(sc, which)
    # index of the clone op that created each member of the chain
    born = {o["as"]: i for i, o in enumerate(sc["ops"]) if o["op"] == "clone"}
    for i, op in enumerate(b["ops"]):
        if op["op"] == "clone":
            b["ops"][i] = {"op": "noop"}
            continue
        inst = op.get("inst")
        if inst is None:
            continue
        keep = False
        # op of an ancestor counts only if it happened before the next descendant in the chain was born
        for k, member in enumerate(chain):
            if inst == member:
                child = chain[k - 1] if k > 0 else None
                if child is None or i < born[child]:
                    keep = True
        if keep:
            op["inst"] = "A"
        else:
            b["ops"][i] = {"op": "noop"}
    return b


def _op_view(res, i):
    """What operation ``i`` of an execution looked like from outside, independent of instance tags and
    of the (unspecified) order inside a group."""
    import json

    out = next((o for o in res["outs"] if o["n"] == i), None)
    if out is None:
        return None
    exc = out.get("exc")
    if exc is not None:
        exc = {k: (v[:1] + v[2:] if k == "sim_id" else v) for k, v in exc.items()}
    r = out.get("res")
    if isinstance(r, list):
        r = sorted(json.dumps(x, sort_keys=True, default=str) for x in r)
    obs = out.get("obs") or {}
    cbs = sorted((x["c"], x.get("g") or "") for x in res["trace"] if x["k"] == "cb+" and x["e"] == i)
    return {"exc": exc, "res": json.dumps(r, sort_keys=True, default=str), "cs": obs.get("cs", obs.get("cs_err")),
            "field": json.dumps(obs.get("field"), sort_keys=True, default=str),
            "allowed": sorted(obs.get("allowed") or []), "cbs": cbs}


def differential(sc, res, bres, which):
    """Copy run vs. the same history on one never-copied machine: every operation addressed to
    ``which`` after it was born must look the same in both (no reference involved)."""
    born = next(i for i, o in enumerate(sc["ops"]) if o["op"] == "clone" and o["as"] == which)
    for i, op in enumerate(sc["ops"]):
        if i <= born or op.get("inst") != which:
            continue
        a, b = _op_view(res, i), _op_view(bres, i)
        if a is None or b is None:
            continue
        for k in ("exc", "cs", "field", "res", "cbs", "allowed"):
            if a[k] != b[k]:
                return {"clause": "C17.equivalent", "kind": "differs_from_uncopied_run", "op": i,
                        "detail": {"on": which, "what": k, "copy": a[k], "uncopied": b[k],
                                   "how": sc["ops"][born]["how"]}}
    return None


@register
class C17(Campaign):
    pid = "C17"
    title = "deepcopy / pickle clones are equivalent and independent"
    technique = ("deterministic simulation with snapshot faults (deepcopy / pickle at seeded points of a history), "
                 "diverging suffixes on original and clone, two no-copy baselines, reference interpreter")
    quick_runs = 2500
    thorough_runs = 40000
    fault_kinds = ["snapshot-deepcopy@op", "snapshot-pickle@op", "snapshot-before-activation (async)",
                   "copy of a copy", "event triggers bound onto the copied model (bind_events_to)",
                   "the model holds its machine and the MODEL is copied (model.sm <-> sm.model cycle)",
                   "listener classes with value-based __eq__/__hash__ (a copy equals its original)",
                   "snapshot-after-failed-op", "snapshot after a failed (deferred) initial activation", "diverging suffixes, interleaved",
                   "allow_event_without_transition reassigned on a live machine (before / after the snapshot)",
                   "a listener object shared by identity between the original and its copy",
                   "listener attached after construction (add_listener / add_observer) before the snapshot",
                   "guard provided by an instance attribute the machine subclass sets before calling the constructor"]
    rule = ("one run = a generated machine (all option combinations rtc x allow x state_field x start_value, "
            "custom attribute, model and listener callbacks, sync/async) driven through a prefix, copied with "
            "deepcopy or pickle at a seeded point, then original and clone driven through different, interleaved "
            "suffixes. The run is compared with the reference forked at the snapshot, after two baselines "
            "without copying agreed with the reference. Also: options / listener classes / custom attribute "
            "survive, the clone's model and listeners are distinct objects, no callback of one copy runs in an "
            "operation addressed to the other. Non-trivial = both copies received >=1 event after the snapshot; "
            "distinct = distinct trace digests.")
    assumptions = [
        "the no-copy baselines must agree with the reference; when one does not (another property's business) "
        "the copy is compared operation by operation with that never-copied run instead (state, exception, "
        "result, callback multiset, allowed events)",
        "callbacks are referenced by name (the library re-attaches listeners of a clone by name only)",
    ]

    def scenario(self, rnd, tier):
        k = gen.knobs(p_validator=0.15, listeners=(0, 2), senders=(0, 1), rtc=[True, True, False],
                      allow=[False, True], async_modes=["none", "none", "all", "mixed"], drivers=["sync"],
                      p_unknown_event=0.05, n_ops=(4, 16), p_ret=0.5)
        sc = gen.gen_scenario(rnd, k, profile="C17")
        prog = sc["programs"][0]
        is_async = any(m.get("async") for m in prog["cbs"].values())
        if is_async:
            sc["driver"] = rnd.choice(["sync", "inloop"])
        if rnd.random() < 0.4:
            prog["model"]["field"] = rnd.choice(["status", "st_x"])
        prog["listener_eq"] = rnd.random() < 0.3
        # several DISTINCT listeners that all compare equal (kept rare: known finding)
        prog["listener_eq_all"] = len(prog["listeners"]) >= 2 and rnd.random() < 0.12
        holds = prog["model"]["kind"] != "none" and rnd.random() < 0.3
        new = sc["ops"][0]
        new["custom_attr"] = True
        new["model_holds_machine"] = holds
        # event triggers bound onto the model (bind_events_to): a copy's model must drive the copy
        new["bind_model"] = (prog["model"]["kind"] != "none") and rnd.random() < 0.35
        if rnd.random() < 0.3:
            new["start_value"] = rnd.choice(prog["states"])["id"]
            s = next(x for x in prog["states"] if x["id"] == new["start_value"])
            if s.get("value") is not None:
                new["start_value"] = s["value"]
        ops = sc["ops"][1:]
        n = len(ops)
        r = rnd.random()
        at = 0 if r < 0.2 else rnd.randrange(0, max(1, n))
        how = rnd.choice(["deepcopy", "pickle"])
        out = [new] + ops[:at] + [{"op": "clone", "inst": "A", "as": "B", "how": how,
                                   "via_model": holds and rnd.random() < 0.7}]
        for op in ops[at:]:
            op = dict(op)
            op["inst"] = rnd.choice(["A", "B"])
            out.append(op)
        # make sure both get something
        out.append({"op": "send", "inst": "B", "event": rnd.choice(prog["events"])})
        out.append({"op": "send", "inst": "A", "event": rnd.choice(prog["events"])})
        if rnd.random() < 0.35:
            # a copy of the copy (either mechanism), driven as well
            out.append({"op": "clone", "inst": "B", "as": "C", "how": rnd.choice(["deepcopy", "pickle"])})
            for _ in range(rnd.randint(1, 4)):
                out.append({"op": "send", "inst": rnd.choice(["C", "C", "B"]), "event": rnd.choice(prog["events"]),
                            "kwargs": {"x": rnd.randrange(7000, 7999)} if rnd.random() < 0.4 else {}})
        if rnd.random() < 0.2:
            # a guard that is a plain instance attribute of the machine, set by the subclass's __init__
            # before the library's constructor: part of the machine's own state, copied with it
            t = rnd.choice(prog["trans"])
            val = rnd.random() < 0.7
            prog["cbs"]["machine.g_attr"] = {"group": "cond", "sig": [], "inst_attr": True, "value": val}
            t.setdefault("cond", []).append("g_attr")
            nbits = (1 << len(prog["states"])) - 1
            sc["gv"][f"{prog['name']}/machine.g_attr"] = [nbits if val else 0] * (len(out) + 8)
        enters = sorted(c for c, m_ in prog["cbs"].items() if m_["group"] == "enter")
        if is_async and enters and rnd.random() < 0.3:
            # the deferred activation of the original FAILS inside an enter callback (the initial state is
            # stored by then, nothing is pending any more); copies taken afterwards resume that state
            cl = next(i for i, o in enumerate(out) if o["op"] == "clone")
            ep = next((i for i, o in enumerate(out) if 0 < i < cl and o.get("inst") == "A"
                       and o["op"] in ("send", "activate")), None)
            if ep is not None:
                c = rnd.choice(enters)
                sc["beh"].setdefault(f"{prog['name']}/{c}", []).insert(
                    0, {"ep": ep, "j": 0, "dp": 0, "raise": rnd.choice(["SimFault", "SimBaseFault", "SimRuntime"]),
                        "_fault": True})
                sc["activation_fault"] = True
        if rnd.random() < 0.25:
            # the option is a public attribute read at every event: reassigned on a live machine, before
            # or after the snapshot, it must hold for that copy (and for copies taken afterwards)
            at2 = rnd.randrange(1, len(out))
            who = "A" if at2 <= out.index(next(o for o in out if o["op"] == "clone")) else rnd.choice(["A", "B"])
            out.insert(at2, {"op": "setopt", "inst": who, "allow": rnd.random() < 0.5})
        from .storage import names_ok

        late_c = [r_ for r_ in new.get("listeners", []) if names_ok(
            prog, ["machine", "model"] + [x for x in new["listeners"] if x != r_])
            and not any(m_.get("async") for c_, m_ in prog["cbs"].items() if c_.startswith(r_ + "."))]
        if late_c and not prog.get("listener_eq_all") and rnd.random() < 0.25:
            # a listener attached AFTER construction -- with add_listener() or its deprecated alias
            # add_observer() -- and before the snapshot: it belongs to the machine and to its copies
            role = rnd.choice(late_c)
            new["listeners"] = [x for x in new["listeners"] if x != role]
            cl = next(i for i, o in enumerate(out) if o["op"] == "clone")
            out.insert(rnd.randrange(1, cl + 1), {"op": "add_listener", "inst": "A", "listeners": [role],
                                                   "via": rnd.choice(["listener", "observer", "observer"])})
        if rnd.random() < 0.25:
            # one listener OBJECT (an audit log) shared by the original and, later, its copy: the copy got
            # its own copy of it, and accepts the original's object like any listener it has not seen
            new["shared_probe"] = True
            cl = next(i for i, o in enumerate(out) if o["op"] == "clone")
            out.insert(rnd.randrange(cl + 1, len(out)), {"op": "attach_probe", "inst": "B", "from": "A"})
            out.append({"op": "send", "inst": "B", "event": rnd.choice(prog["events"])})
        if new.get("bind_model"):
            for o in out:
                if o["op"] == "send" and o["event"] in prog["events"] and rnd.random() < 0.5:
                    o["style"] = "mbound"
        sc["ops"] = out
        for c in sc["gv"]:
            while len(sc["gv"][c]) < len(out):
                sc["gv"][c].append(rnd.getrandbits(len(prog["states"])))
        return sc

    def evaluate(self, sc):
        out = {"violations": [], "unarmed": [], "mstats": {}, "res": None, "evals": 0, "c17": {}}
        off = {}
        for which in sorted({o["inst"] for o in sc["ops"] if o.get("inst")}):
            b = baseline(sc, which)
            bres = self.execute(b)
            bm = match.Matcher(b, bres)
            bf = bm.run(stop_at_first=True)
            out["evals"] += 1
            out["res"] = bres
            out["mstats"] = bm.stats
            if bf:
                out["unarmed"].append("baseline:" + bf[0]["kind"])
                off[which] = (bres, getattr(bm.ref, "ambiguous", False))
        if off:
            # the never-copied machine itself is not in step with the reference (another property's
            # business): the copies are then compared with the never-copied runs directly
            out["c17"]["probe.baseline_not_in_step_with_reference(differential comparison)"] = 1
            if any(amb for _b, amb in off.values()):
                return out
            res = self.execute(sc)
            out["evals"] += 1
            out["res"] = res
            for which in sorted(off):
                if which == "A":
                    continue
                v = differential(sc, res, off[which][0], which)
                if v:
                    out["violations"].append(v)
                    break
            return out
        res = self.execute(sc)
        m = match.Matcher(sc, res)
        f = m.run(stop_at_first=False)
        out.update({"res": res, "mstats": m.stats, "evals": out["evals"] + 1})
        # ---- the snapshot itself
        for r in res["trace"]:
            if r["k"] == "clone":
                i = r["info"]
                if i["model_shared"] or i["listeners_shared"]:
                    out["violations"].append({"clause": "C17.independence", "kind": "shared_object", "op": None,
                                              "detail": i})
                    return out
                if i["options"] != i["orig_options"]:
                    out["violations"].append({"clause": "C17.options", "kind": "options", "op": None, "detail": i})
                    return out
                if i["listener_classes"] != i["orig_listener_classes"]:
                    out["violations"].append({"clause": "C17.listeners", "kind": "listeners", "op": None, "detail": i})
                    return out
                if not i["extra_attr"]:
                    out["violations"].append({"clause": "C17.custom_attributes", "kind": "attr", "op": None, "detail": i})
                    return out
        # ---- a listener object shared with the original is a listener of the copy too
        if not f:
            ap = next((i for i, o in enumerate(sc["ops"]) if o["op"] == "attach_probe"), None)
            outs = {o["n"]: o for o in res["outs"]}
            if ap is not None and outs.get(ap) and not outs[ap].get("skipped"):
                heard = (outs[ap].get("obs") or {}).get("probe_heard", 0)
                for i in range(ap + 1, len(sc["ops"])):
                    op = sc["ops"][i]
                    o = outs.get(i)
                    if op.get("inst") != sc["ops"][ap]["inst"] or o is None or o.get("skipped"):
                        continue
                    now = (o.get("obs") or {}).get("probe_heard")
                    exp = m.exp_by_op.get(i) or {}
                    fired = sum(1 for ex in exp.get("execs", []) if ex.get("trans", -1) is not None
                                and ex.get("trans", -1) >= 0)
                    if now is None:
                        continue
                    if op["op"] == "send" and exp.get("exc") is None and fired and now <= heard:
                        out["violations"].append({
                            "clause": "C17.independence", "kind": "shared_listener_object_ignored_by_copy", "op": i,
                            "detail": {"on": op.get("inst"), "transitions_executed": fired,
                                       "heard_before": heard, "heard_after": now,
                                       "how": sc["ops"][next(k_ for k_, o_ in enumerate(sc["ops"])
                                                             if o_["op"] == "clone")]["how"]}})
                        return out
                    heard = now
        clone_at = next(i for i, o in enumerate(sc["ops"]) if o["op"] == "clone")
        gen2 = any(o["op"] == "clone" and o["inst"] != "A" for o in sc["ops"])
        for x in f:
            kind = x["kind"]
            if kind in self.DESYNC or kind in ("op_result", "cross_instance", "allowed"):
                op = sc["ops"][x["op"]] if x["op"] is not None else {}
                d = dict(x["detail"])
                d["on"] = op.get("inst")
                d["how"] = sc["ops"][clone_at]["how"]
                d["clone_before_activation"] = clone_at == 1 and res["outs"][0]["obs"].get("csv") is None
                d["second_generation"] = gen2 and op.get("inst") == "C"
                d["style"] = op.get("style")
                clause = "C17.independence" if kind == "cross_instance" else "C17.equivalent"
                out["violations"].append({"clause": clause, "kind": kind, "op": x["op"], "detail": d})
                break
            out["unarmed"].append(kind)
        return out

    def nontrivial(self, sc, ev):
        if ev.get("evals", 0) >= 3 and not ev["unarmed"][:1] == ["baseline"]:
            return ev["res"]["digest"]
        return None

    def counters(self, sc, ev):
        c = dict(ev.get("c17", {}))
        cl = next(o for o in sc["ops"] if o["op"] == "clone")
        c["fault.snapshot-" + cl["how"]] = 1
        at = sc["ops"].index(cl)
        if at == 1:
            c["fault.snapshot-right-after-construction"] = 1
        return c

    def signature(self, v, sc):
        sig = super().signature(v, sc)
        d = v.get("detail", {})
        sig["clone_before_activation"] = d.get("clone_before_activation")
        sig["on"] = d.get("on")
        prog = sc["programs"][0]
        new = sc["ops"][0]
        sig["several_equal_listeners"] = bool(prog.get("listener_eq_all")) and len(new.get("listeners", [])) >= 2
        return sig
