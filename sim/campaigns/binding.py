"""C07: callbacks receive exactly the parameters they declare.

What the simulation decides (DESIGN §3 C07): *attribution* — with several events queued, nested
(kwargs forwarded from a parent event) or sent through different entry points, each carrying unique
argument values, every callback invocation receives the arguments and built-ins of the event being
processed; reserved names passed as user kwargs never override or leak — and *independence of the
binding from definition history* — a look-alike class (same class, method and variable names,
different parameter kinds or coroutine-ness) defined and used in between must not change how a
callback is bound (the signature cache is process-global).  The signature shape and the call shape
are re-drawn per run (plain seeded sampling, stated openly).

The oracle is an independent binder implementing the documented rules; the generator only produces
(signature, call) pairs on which the positional and the remaining-order readings agree (DESIGN §4.7).
"""

import copy

from .. import gen
from .. import match
from ..campaign import Campaign
from ..campaign import register
from ..gen import P
from ..match import _encv
from ..match import canon

BUILTINS = ["event_data", "machine", "event", "model", "transition", "state", "source", "target"]
# ordinary user keyword names; the last five are also field names of the library's own event records
# (TriggerData / EventData), "key" is a parameter name of internal helpers: none of this gives them a special status
USER = ["x", "y", "z", "tok", "result", "executed", "is_initial", "trigger_data", "kwargs", "key"]
FREE = ["a", "b", "c", "d"]


def gen_sig(rnd, n_pos, collide=False):
    """A signature that is unambiguous for calls with exactly n_pos positional arguments and any
    subset of the user keyword names (see module doc)."""
    sig = []
    used = set()
    free = list(FREE)
    npar = rnd.randint(0, 4)
    kinds = []
    n_po = rnd.randint(0, min(2, npar)) if rnd.random() < 0.3 else 0
    for i in range(npar):
        kinds.append("po" if i < n_po else "pk")
    collide_at = None
    if collide and n_pos >= 1 and npar >= 1:
        collide_at = rnd.randrange(min(n_pos, npar))
    for i, kind in enumerate(kinds):
        if i == collide_at and kind == "pk":
            # a positional slot whose parameter may ALSO be supplied by keyword: the parameter gets the
            # keyword's value (on this both readings of the statement agree); where the displaced
            # positional argument goes is not compared (DESIGN section 4.7)
            nm = rnd.choice([n for n in USER if n not in used])
            p = P(nm, kind)
            if sig and "default" in sig[-1]:
                p["default"] = None
        elif i < n_pos:
            nm = free.pop(0)  # filled positionally: never a name that is also supplied by keyword
            p = P(nm, kind)
            if rnd.random() < 0.3:
                p["default"] = rnd.choice([None, 0, "dflt"])
            if sig and "default" in sig[-1] and "default" not in p:
                p["default"] = None
        else:
            if kind == "po":
                nm = free.pop(0)
                p = P(nm, kind, default=rnd.choice([None, 7]))
            else:
                r = rnd.random()
                pool = [n for n in BUILTINS if n not in used]
                if r < 0.55 and pool:
                    nm = rnd.choice(pool)
                    p = P(nm, kind)
                    if sig and "default" in sig[-1]:
                        p["default"] = None
                elif r < 0.85:
                    nm = rnd.choice([n for n in USER if n not in used] or [free.pop(0)])
                    p = P(nm, kind, default=rnd.choice([None, 0, "dflt"]))
                else:
                    nm = free.pop(0)
                    p = P(nm, kind, default=rnd.choice([None, 1]))
        used.add(p["name"])
        sig.append(p)
    if rnd.random() < 0.35:
        sig.append(P("args", "var"))
    for _ in range(rnd.randint(0, 2)):
        pool = [n for n in BUILTINS + USER if n not in used]
        if not pool:
            break
        nm = rnd.choice(pool)
        used.add(nm)
        p = P(nm, "ko")
        if nm in USER or rnd.random() < 0.3:
            p["default"] = rnd.choice([None, 0, "kd"])
        sig.append(p)
    if rnd.random() < 0.4:
        sig.append(P("kw", "varkw"))
    return sig


def expected_binding(sig, args, kwargs, builtins):
    """The documented rules, on the unambiguous set."""
    K = {k: v for k, v in kwargs.items() if k not in BUILTINS}
    K.update(builtins)
    out = {}
    pos = list(args)
    i = 0
    named = set()
    unchecked = False
    for p in sig:
        if p["kind"] not in ("po", "pk"):
            continue
        if i < len(pos):
            if p["kind"] == "pk" and p["name"] in K:
                out[p["name"]] = K[p["name"]]
                named.add(p["name"])
                unchecked = True  # from here on the two readings place positional arguments differently
                i += 1
                continue
            out[p["name"]] = ("$unchecked",) if unchecked else pos[i]
            i += 1
        elif p["kind"] == "pk" and p["name"] in K:
            out[p["name"]] = K[p["name"]]
            named.add(p["name"])
        elif "default" in p:
            out[p["name"]] = ("$default", p["default"])
        elif unchecked:
            out[p["name"]] = ("$unchecked",)
        else:
            return None
    for p in sig:
        if p["kind"] == "var":
            out[p["name"]] = ("$unchecked",) if unchecked else ("$tuple", pos[i:])
        elif p["kind"] == "ko":
            if p["name"] in K:
                out[p["name"]] = K[p["name"]]
                named.add(p["name"])
            elif "default" in p:
                out[p["name"]] = ("$default", p["default"])
            else:
                return None
        elif p["kind"] == "varkw":
            pk_ko = {q["name"] for q in sig if q["kind"] in ("pk", "ko")}
            out[p["name"]] = ("$dict", {k: v for k, v in K.items() if k not in pk_ko})
    return out


def binder(m, ctx, r, item):
    n = ctx["n"]
    inst = ctx["inst"]
    rp = inst.rp
    pname, short = r["c"].split("/", 1)
    meta = None
    for rp_ in m.ref.progs:
        # (an inherited callback is described by the program that defines it)
        if rp_.name == pname:
            meta = rp_.prog["cbs"].get(short)
    if meta is None:
        meta = rp.prog["cbs"].get(short)
    if meta is None:
        return
    ev, src, dst, view = item["ev"], item["src"], item["dst"], item["view"]
    t = rp.prog["trans"][item["t"]] if item.get("t", -1) >= 0 else None
    tr = {"$t": [src, dst, " ".join(t["events"])]} if t is not None else {"$t": ["", dst, "__initial__"]}
    builtins = {"event": {"$e": ev}, "source": {"$s": src}, "target": {"$s": dst}, "state": {"$s": view},
                "machine": {"$o": [ctx["tag"], "machine"]}, "model": {"$o": [ctx["tag"], "model"]},
                "event_data": {"$ed": sorted(k for k in (item.get("kw") or {}) if k not in BUILTINS)},
                "transition": tr}
    kw = {k: _encv(v) for k, v in (item.get("kw") or {}).items()}
    args = [_encv(a) for a in (item.get("args") or [])]
    exp = expected_binding(meta.get("sig", []), args, kw, builtins)
    if exp is None:
        m.add("harness.unbindable", n, cb=r["c"])
        return
    b = r["b"]
    for name, want in exp.items():
        got = b.get(name, "$absent")
        if isinstance(want, tuple) and want[0] == "$unchecked":
            continue
        if isinstance(want, tuple) and want[0] == "$default":
            want = _encv(want[1])
        elif isinstance(want, tuple) and want[0] == "$tuple":
            want = {"$tu": want[1]}
        elif isinstance(want, tuple) and want[0] == "$dict":
            if not isinstance(got, dict) or "$d" not in got:
                m.add("bind.varkw", n, cb=r["c"], param=name, expected="dict", actual=got)
                return
            gd = {k: v for k, v in got["$d"]}
            wd = want[1]
            if sorted(gd) != sorted(wd):
                m.add("bind.varkw", n, cb=r["c"], param=name, missing=sorted(set(wd) - set(gd)),
                      unexpected=sorted(set(gd) - set(wd)), group=item["g"])
                return
            for k2 in wd:
                if canon(gd[k2]) != canon(wd[k2]):
                    m.add("bind.varkw", n, cb=r["c"], param=name, key=k2, expected=wd[k2], actual=gd[k2],
                          group=item["g"])
                    return
            continue
        if canon(got) != canon(want):
            m.add("bind.param", n, cb=r["c"], param=name, expected=want, actual=got, group=item["g"],
                  event=ev)
            return
    extra = sorted(set(b) - set(exp))
    if extra:
        m.add("bind.param", n, cb=r["c"], param=extra[0], expected="$absent", actual=b[extra[0]])


def make_program(rnd, n_pos, name="M0", module="simgen_m0", pyname=None, collide=False):
    ns = rnd.randint(2, 3)
    ids = [f"s{i}" for i in range(ns)]
    events = rnd.sample(["ev", "go", "tick"], rnd.randint(1, 2))
    prog = {"name": name, "module": module, "listeners": ["L0"], "model": {"kind": "attr", "field": "state"},
            "states": [{"id": s, "initial": i == 0, "final": False} for i, s in enumerate(ids)],
            "trans": [], "events": events, "cbs": {}}
    if pyname:
        prog["pyname"] = pyname
    for i, s in enumerate(ids):
        for e in events:
            prog["trans"].append({"src": s, "dst": ids[(i + 1) % ns] if e == events[0] else rnd.choice(ids),
                                  "events": [e]})
    names = [("before_transition", "before"), ("on_transition", "on"), ("after_transition", "after"),
             ("on_enter_state", "enter"), ("on_exit_state", "exit")]
    for e in events:
        names += [(f"before_{e}", "before"), (f"on_{e}", "on"), (f"after_{e}", "after")]
    k = 0
    for t in prog["trans"]:
        if rnd.random() < 0.5:
            g = rnd.choice(["validators", "cond", "before", "on", "after"])
            pre = {"validators": "v_", "cond": "g_", "before": "b_", "on": "o_", "after": "a_"}[g]
            nm = f"{pre}{k}"
            k += 1
            t.setdefault(g, []).append(nm)
            role = rnd.choice(["machine", "machine", "model", "L0"])
            prog["cbs"][f"{role}.{nm}"] = {"group": g, "sig": gen_sig(rnd, n_pos, collide and rnd.random() < 0.5)}
    if rnd.random() < 0.35:
        # several candidates for one (state, event): a guarded alternative declared BEFORE an existing
        # transition -- whichever runs, its callbacks see ITS transition / target
        t = rnd.choice(prog["trans"])
        nm = f"g_{k}"
        k += 1
        role = rnd.choice(["machine", "machine", "model", "L0"])
        prog["cbs"][f"{role}.{nm}"] = {"group": "cond", "sig": gen_sig(rnd, n_pos, collide and rnd.random() < 0.5)}
        alt = {"src": t["src"], "dst": rnd.choice([x for x in ids if x != t["dst"]] or ids), "events": list(t["events"]),
               "cond": [nm]}
        prog["trans"].insert(prog["trans"].index(t), alt)
    if len(events) >= 2 and rnd.random() < 0.2:
        # a chained event: ``after="<event>"`` sends that event with the arguments of the event being
        # processed (run-to-completion mode: queued behind it)
        t = rnd.choice(prog["trans"])
        t.setdefault("after", []).append(rnd.choice([e for e in events if e not in t["events"]]))
        prog["needs_rtc"] = True
    if rnd.random() < 0.3:
        # guards combined in a boolean expression: each operand is bound by its own signature, exactly
        # as when it is attached alone
        t = rnd.choice(prog["trans"])
        ops_ = []
        for _ in range(2):
            nm = f"g_{k}"
            k += 1
            role = rnd.choice(["machine", "machine", "model", "L0"])
            prog["cbs"][f"{role}.{nm}"] = {"group": "cond", "sig": gen_sig(rnd, n_pos, collide and rnd.random() < 0.5)}
            ops_.append(nm)
        form = rnd.choice(["{a} or {b}", "{a} or {b}", "{a} and {b}", "not {a} or {b}", "{a} or not {b}"])
        t.setdefault("cond", []).append(form.format(a=ops_[0], b=ops_[1]))
    for nm, g in names:
        if rnd.random() < 0.45:
            role = rnd.choice(["machine", "machine", "model", "L0"])
            prog["cbs"][f"{role}.{nm}"] = {"group": g, "sig": gen_sig(rnd, n_pos, collide and rnd.random() < 0.5)}
    for st in prog["states"]:
        if rnd.random() < 0.3:
            # a callback attached with the decorator syntax (``@s1.enter`` / ``@s1.exit``): the spec holds
            # the function object itself, not a name
            g = rnd.choice(["enter", "exit"])
            nm = f"{'en' if g == 'enter' else 'ex'}_{k}"
            k += 1
            st.setdefault(g, []).append(nm)
            prog["cbs"][f"machine.{nm}"] = {"group": g, "sig": gen_sig(rnd, n_pos), "style": "decorator"}
    if not prog["cbs"]:
        prog["cbs"]["machine.on_transition"] = {"group": "on", "sig": gen_sig(rnd, n_pos)}
    # callables other than plain methods: functions wrapped by one shared functools.wraps decorator,
    # functools.partial objects stored on a listener
    for c, m in prog["cbs"].items():
        r = rnd.random()
        if m.get("style") == "decorator":
            continue
        if r < 0.25:
            m["wrapped"] = True
        elif r < 0.4 and c.startswith("L0."):
            m["partial"] = True
        elif r < 0.5:
            # ``def cb(*args, **kw)`` without an explicit self
            m["sig"] = [P("args", "var"), P("kw", "varkw")]
            m["noself"] = True
    for m in prog["cbs"].values():
        if m["group"] == "enter":
            # the initial activation carries no arguments: every parameter needs another source
            for q in m["sig"]:
                if q["kind"] in ("po", "pk") and q["name"] not in BUILTINS:
                    q.setdefault("default", None)
            seen_default = False
            for q in m["sig"]:
                if q["kind"] in ("po", "pk"):
                    if "default" in q:
                        seen_default = True
                    elif seen_default:
                        q["default"] = None
    return prog


def lookalike(rnd, prog, n_pos=0):
    """Same python class / method / variable names, different parameter kinds or coroutine-ness."""
    p2 = copy.deepcopy(prog)
    p2["name"] = "N0"
    p2["module"] = "simgen_n0"
    p2["pyname"] = prog.get("pyname") or prog["name"]
    changed = 0
    for c, m in sorted(p2["cbs"].items()):
        sig = m.get("sig", [])
        r = rnd.random()
        if r < 0.4:
            # a trailing positional-or-keyword parameter with a default becomes keyword-only (or back):
            # co_varnames stays the same, the binding rule does not
            pks = [q for q in sig if q["kind"] == "pk" and "default" in q and q["name"] not in FREE]
            kos = [q for q in sig if q["kind"] == "ko"]
            has_var = any(q["kind"] == "var" for q in sig)
            if pks and not kos and not has_var:
                pks[-1]["kind"] = "ko"
                changed += 1
            elif (kos and not has_var and all("default" in q or q["name"] in BUILTINS for q in kos)
                  and len([q for q in sig if q["kind"] in ("po", "pk")]) >= n_pos):
                for q in kos:
                    q["kind"] = "pk"
                    q.setdefault("default", None)
                changed += 1
        elif r < 0.7:
            if m.get("async"):
                m.pop("async")
            else:
                m["async"] = True
            changed += 1
    return p2, changed


def subclass_twin(rnd, prog, n_pos):
    """A subclass that declares nothing new but OVERRIDES some machine-defined callbacks -- among them
    decorator-declared ones -- with methods of another signature: instances of the subclass call the
    overriding methods, bound to the instance, with the parameters THEY declare."""
    s = {"name": "N0", "module": "simgen_n0", "pyname": "SubN0", "base_name": render_pyname(prog),
         "base_module": prog["module"], "model": dict(prog["model"]), "listeners": list(prog["listeners"]),
         "states": [dict(x, inherited=True) for x in prog["states"]],
         "trans": [dict(t, inherited=True) for t in prog["trans"]],
         "events": list(prog["events"]), "cbs": {}}
    changed = 0
    for c, m in sorted(prog["cbs"].items()):
        if not c.startswith("machine."):
            s["cbs"][c] = copy.deepcopy(m)
            continue
        plain = not any(m.get(f) for f in ("wrapped", "partial", "noself"))
        if plain and rnd.random() < (0.8 if m.get("style") == "decorator" else 0.3):
            m2 = {"group": m["group"], "sig": gen_sig(rnd, n_pos)}
            if m.get("async"):
                m2["async"] = True
            if m["group"] == "enter":
                for q in m2["sig"]:
                    if q["kind"] in ("po", "pk") and q["name"] not in BUILTINS:
                        q.setdefault("default", None)
                seen_default = False
                for q in m2["sig"]:
                    if q["kind"] in ("po", "pk"):
                        if "default" in q:
                            seen_default = True
                        elif seen_default:
                            q["default"] = None
            s["cbs"][c] = m2  # rendered in the subclass as a plain method of the same name
            changed += 1
        else:
            s["cbs"][c] = dict(copy.deepcopy(m), inherited=True, full=f"{prog['name']}/{c}")
    return s, changed


def render_pyname(prog):
    from ..render import pyname

    return pyname(prog)


@register
class C07(Campaign):
    pid = "C07"
    title = "Callbacks receive exactly the parameters they declare"
    technique = ("deterministic simulation: attribution of unique arguments across queued / nested events and "
                 "interleaved look-alike class definitions, independent reference binder; signature and call "
                 "shapes by seeded sampling")
    quick_runs = 4000
    thorough_runs = 80000
    fault_kinds = ["reserved-kwarg (source=, event_data=, state= ... passed by the user)", "nested send forwarding kwargs",
                   "callbacks wrapped by one shared functools.wraps decorator", "functools.partial callbacks",
                   "instance dropped and collected before a look-alike is defined (address reuse)",
                   "queued events with different arguments", "look-alike class defined/used in between (signature cache)",
                   "more positional arguments than positional parameters"]
    rule = ("one run = a machine whose callbacks (all groups; machine/model/listener; plain, coroutine) have "
            "signatures drawn from every ordering of positional-only, positional-or-keyword, defaulted, *args, "
            "keyword-only and **kwargs parameters over built-in, user and free names; sends carry 0-4 unique "
            "positional arguments and a subset of user keyword names plus reserved names; some callbacks send "
            "nested events forwarding arguments; in ~40% of the runs a look-alike class is defined and driven in "
            "between. Every recorded invocation is compared with an independent binder. Non-trivial = >=1 callback "
            "with >=2 parameters of different kinds was invoked for >=2 different events; distinct = distinct digests.")
    assumptions = [
        "parameters on which the positional and the remaining-order readings of the statement disagree are not "
        "compared: after a positional slot whose parameter is also supplied by keyword, later positional parameters "
        "and *args are skipped (the parameter itself must receive the keyword's value under both readings)",
        "every required parameter has a source; positional-only parameters never share a name with a keyword",
        "signature/call shape coverage is seeded sampling, not a schedule-dependent search (DESIGN §3 C07)",
    ]

    def scenario(self, rnd, tier):
        n_pos = rnd.choice([0, 0, 1, 2, 3, 4])
        collide = n_pos >= 1 and rnd.random() < 0.35
        prog = make_program(rnd, n_pos, collide=collide)
        programs = [prog]
        twin = None
        r_tw = rnd.random()
        if r_tw < 0.4:
            twin, changed = lookalike(rnd, prog, n_pos)
            if changed:
                prog["pyname"] = "Mx"
                twin["pyname"] = "Mx"
                programs.append(twin)
            else:
                twin = None
        elif r_tw < 0.55:
            twin, changed = subclass_twin(rnd, prog, n_pos)
            if changed:
                programs.append(twin)
            else:
                twin = None
        # async-ness: all senders must be able to await
        for p in programs:
            if rnd.random() < 0.3 and p is prog:
                for m in p["cbs"].values():
                    if rnd.random() < 0.5:
                        m["async"] = True
        uniq = [1000]

        def call_shape():
            uniq[0] += 1
            args = [f"p{uniq[0]}_{i}" for i in range(n_pos)]
            kw = {}
            for nm in USER:
                if rnd.random() < (0.5 if nm in USER[:4] else 0.25):
                    kw[nm] = f"k{uniq[0]}_{nm}"
                    if rnd.random() < 0.25:
                        kw[nm] = rnd.choice([None, 0, "", False, []])
            if rnd.random() < 0.35:
                for nm in rnd.sample(BUILTINS, rnd.randint(1, 3)):
                    kw[nm] = "HACK"
            return args, kw

        beh = {}
        for p in programs:
            is_async = any(m.get("async") for m in p["cbs"].values())
            # (a chained ``after="<event>"`` entry is itself a sender of the after group: no second one there)
            sgroups = ("before", "on", "enter", "exit") if p.get("needs_rtc") or programs[0].get("needs_rtc") \
                else ("before", "on", "after", "enter", "exit")
            cands = gen.choose_effectful(rnd, p, rnd.randint(0, 2), sgroups)
            if p.get("base_module"):
                # a subclass instance also runs the base class's (inherited) sending callbacks: a second
                # sender in the same group would make the queue order depend on the order inside the group
                cands = []
            for c in cands:
                gen.ensure_machine_param(p, c)
                sig = p["cbs"][c]["sig"]
                # `machine` must be bindable by name: not among the first n_pos positional parameters
                if not c.startswith("machine."):
                    mp = next(q for q in sig if q["name"] == "machine")
                    sig.remove(mp)
                    mp["kind"] = "ko"
                    sig.append(mp)
                    sig.sort(key=lambda q: {"po": 0, "pk": 1, "var": 2, "ko": 3, "varkw": 4}[q["kind"]])
                if is_async:
                    p["cbs"][c]["async"] = True
                a, kw = call_shape()
                kw.pop("event", None)
                beh[f"{p['name']}/{c}"] = [{"sends": [{"event": rnd.choice(p["events"]), "args": a, "kwargs": kw}],
                                            "sends_jlt": 1, "sends_dplt": 1}]
        if rnd.random() < 0.25:
            # a callback that declares ``event_data`` modifies the dictionary returned by
            # ``event_data.extended_kwargs`` (its own copy): no other callback's parameters change
            cands_ = sorted(c for c, m in prog["cbs"].items()
                            if m["group"] in ("validators", "before", "exit", "on")
                            and not any(m.get(f) for f in ("noself", "static", "partial"))
                            and not any(q["name"] == "event_data" for q in m.get("sig", []))
                            and not any(q["kind"] in ("var",) for q in m.get("sig", [])))
            if cands_:
                c = rnd.choice(cands_)
                sig = prog["cbs"][c]["sig"]
                sig.append(P("event_data", "ko"))
                sig.sort(key=lambda q: {"po": 0, "pk": 1, "var": 2, "ko": 3, "varkw": 4}[q["kind"]])
                for r_ in beh.setdefault(f"{prog['name']}/{c}", [{}]):
                    r_["scribble"] = True
        ops = []
        for k, p in enumerate(programs):
            is_async = any(m.get("async") for m in p["cbs"].values())
            ops.append({"op": "new", "inst": "AB"[k], "prog": k, "listeners": ["L0"],
                        "rtc": True if is_async or p.get("needs_rtc") else rnd.choice([True, True, False]),
                        "allow": True})
        if twin is not None and rnd.random() < 0.5:
            twin["deferred"] = True
            ops.insert(1, {"op": "define", "prog": 1})
            if rnd.random() < 0.5:
                # use the first class before its look-alike exists
                a, kw = call_shape()
                kw.pop("event", None)
                ops.insert(1, {"op": "send", "inst": "A", "event": rnd.choice(prog["events"]), "args": a, "kwargs": kw})
        for _ in range(rnd.randint(3, 10)):
            k = rnd.randrange(len(programs))
            a, kw = call_shape()
            style = rnd.choice(["send", "call"])
            if "event" in kw:
                style = "call"  # sm.send(name, event=...) is not expressible in Python
            ops.append({"op": "send", "inst": "AB"[k], "event": rnd.choice(programs[k]["events"]),
                        "style": style, "args": a, "kwargs": kw})
        if twin is not None and rnd.random() < 0.35:
            # the first class is used, dropped (collected) and only then the look-alike is defined and
            # used: whatever was cached for the dead callables must not be served to the new ones
            a_ops = [o for o in ops if o.get("inst") == "A"]
            b_ops = [o for o in ops if o.get("inst") == "B" or (o["op"] == "define")]
            if not any(o["op"] == "define" for o in b_ops):
                twin["deferred"] = True
                b_ops.insert(0, {"op": "define", "prog": 1})
            ops = a_ops + [{"op": "drop", "inst": "A"}] + b_ops
        gv = {}
        for p in programs:
            for c, m in p["cbs"].items():
                if m["group"] == "cond":
                    gv[f"{p['name']}/{c}"] = [rnd.getrandbits(3) | 1 for _ in ops]
        drivers = ["sync"]
        if any(m.get("async") for p in programs for m in p["cbs"].values()):
            drivers = ["sync", "inloop"]
        return {"profile": "C07", "programs": programs, "beh": beh, "gv": gv, "ops": ops,
                "driver": rnd.choice(drivers), "perm_seed": 0, "n_pos": n_pos}

    def evaluate(self, sc):
        n_pos = sc.get("n_pos", 0)
        shapes = [o for o in sc["ops"] if o["op"] == "send"]
        shapes += [s_ for rules in sc["beh"].values() for r_ in rules for s_ in (r_.get("sends") or [])]
        bad_sig = False
        for p_ in sc["programs"]:
            for m_ in p_["cbs"].values():
                pos = [q for q in m_.get("sig", []) if q["kind"] in ("po", "pk")]
                if sum(1 for q in pos[:n_pos] if q["name"] not in FREE and q["name"] not in USER) > 0:
                    bad_sig = True
                if sum(1 for q in pos[:n_pos] if q["name"] in USER) > 1:
                    bad_sig = True
                if any(q["name"] not in FREE and q["kind"] == "po" for q in pos):
                    bad_sig = True
        if bad_sig or any(len(o.get("args") or []) != n_pos for o in shapes):
            # (only reachable through minimisation) outside the envelope: a required parameter would
            # have no source
            return {"violations": [], "unarmed": ["invalid"], "mstats": {},
                    "res": {"trace": [], "outs": [], "stats": {}, "digest": "invalid", "never_awaited": []}}
        res = self.execute(sc)
        m = match.Matcher(sc, res)
        m.binder = binder
        f = m.run(stop_at_first=False)
        out = {"violations": [], "unarmed": [], "mstats": m.stats, "res": res}
        for x in f:
            kind = x["kind"]
            clause = None
            if kind.startswith("bind."):
                clause = "C07.binding"
            elif kind == "op_exc" and ((x["detail"].get("actual") or {}).get("cls") == "TypeError"):
                clause = "C07.no_type_error"
            if clause is None:
                out["unarmed"].append(kind)
                if kind in self.DESYNC:
                    break
                continue
            d = dict(x["detail"])
            d["lookalike"] = len(sc["programs"]) > 1
            d["n_pos"] = sc.get("n_pos")
            if d.get("cb"):
                prog = next(p for p in sc["programs"] if d["cb"].startswith(p["name"] + "/"))
                d["sig"] = [f"{q['kind']}:{q['name']}" for q in prog["cbs"][d["cb"].split("/", 1)[1]].get("sig", [])]
            out["violations"].append({"clause": clause, "kind": kind, "op": x["op"], "detail": d})
            break
        return out

    def nontrivial(self, sc, ev):
        seen = {}
        for r in ev["res"]["trace"]:
            if r["k"] == "cb+" and len(r["b"]) >= 2:
                seen.setdefault(r["c"], set()).add(r["e"])
        if any(len(v) >= 2 for v in seen.values()):
            return ev["res"]["digest"]
        return None

    def counters(self, sc, ev):
        c = {"probe.n_pos_%d" % sc.get("n_pos", 0): 1}
        if len(sc["programs"]) > 1:
            c["fault.lookalike_class"] = 1
        for o in sc["ops"]:
            if o["op"] == "send" and any(v == "HACK" for v in (o.get("kwargs") or {}).values()):
                c["fault.reserved-kwarg"] = c.get("fault.reserved-kwarg", 0) + 1
        c["fault.nested_sends"] = ev["res"]["stats"].get("sends", 0)
        kinds = set()
        for p in sc["programs"]:
            for m in p["cbs"].values():
                for q in m.get("sig", []):
                    kinds.add(q["kind"])
        for k2 in kinds:
            c["probe.param_kind_" + k2] = 1
        return c

    def signature(self, v, sc):
        sig = super().signature(v, sc)
        d = v.get("detail", {})
        sig["lookalike"] = d.get("lookalike")
        return sig
