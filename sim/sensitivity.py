"""Sensitivity self-test (DESIGN §2.13): every mutant must be caught by its property's quick check.

Three sources of mutants, all applied to a *scratch copy* of /repo/statemachine (never to /repo):
  * CORPUS below: small hand-written patches, each breaking one property while the 348 tests pass;
  * the reverse of every ``fix:`` commit recorded in known_findings.json (the original defect must be
    reported again: a fixed entry suppresses nothing);
  * /verif/seeded/<id>/patch.diff: changes written by independent sub-agents that only saw the
    property text.

Run with ``bin/check selftest --sensitivity`` (all) or ``VERIF_SENS=<id,id>`` to select.
"""

import json
import os
import shutil
import subprocess
import sys
import tempfile
import time

VERIF = os.path.dirname(os.path.dirname(os.path.abspath(__file__)))
REPO = "/repo"

CORPUS = [
    {"id": "m-prefix-match", "prop": "C01", "file": "statemachine/events.py",
     "old": "return any(e == event for e in self)",
     "new": "return any(str(event).startswith(str(e)) for e in self)",
     "what": "events matched by prefix (go_back also fires the transitions of go)"},
    {"id": "m-async-guards-any", "prop": "C01", "file": "statemachine/callbacks.py",
     "old": "        for condition in self:\n            if not await condition(*args, **kwargs):\n                return False\n        return True",
     "new": "        for condition in self:\n            if await condition(*args, **kwargs):\n                return True\n        return not self.items",
     "what": "async guard list evaluated as any-of instead of all-of"},
    {"id": "m-async-exit-before-before", "prop": "C02", "file": "statemachine/engines/async_.py",
     "old": "        result = await self.sm._callbacks.async_call(transition.before.key, *args, **kwargs)\n        if source is not None and not transition.internal:\n            await self.sm._callbacks.async_call(source.exit.key, *args, **kwargs)\n",
     "new": "        if source is not None and not transition.internal:\n            await self.sm._callbacks.async_call(source.exit.key, *args, **kwargs)\n        result = await self.sm._callbacks.async_call(transition.before.key, *args, **kwargs)\n",
     "what": "exit group runs before the before group on the async engine"},
    {"id": "m-after-event-not-scoped", "prop": "C02", "file": "statemachine/transition.py",
     "old": "            after(\n                f\"after_{event}\",\n                priority=CallbackPriority.NAMING,\n                is_convention=True,\n                cond=same_event_cond,\n            )",
     "new": "            after(\n                f\"after_{event}\",\n                priority=CallbackPriority.NAMING,\n                is_convention=True,\n            )",
     "what": "after_<event> callbacks of multi-event transitions run for every triggering event"},
    {"id": "m-lifo-queue", "prop": "C03", "file": "statemachine/engines/sync.py",
     "old": "            while self._external_queue:\n                trigger_data = self._external_queue.popleft()",
     "new": "            while self._external_queue:\n                trigger_data = self._external_queue.pop()",
     "what": "queued events processed LIFO"},
    {"id": "m-last-result", "prop": "C03", "file": "statemachine/engines/async_.py",
     "old": "                    if first_result is self._sentinel:\n                        first_result = result",
     "new": "                    if result is not self._sentinel:\n                        first_result = result",
     "what": "outermost call returns the LAST event's result (async engine)"},
    {"id": "m-queue-not-cleared-sync", "prop": "C04", "file": "statemachine/engines/sync.py",
     "old": "                    self._external_queue.clear()\n                    raise",
     "new": "                    raise",
     "what": "sync engine: queue not cleared when an event fails"},
    {"id": "m-queue-not-cleared-async", "prop": "C04", "file": "statemachine/engines/async_.py",
     "old": "                    self._external_queue.clear()\n                    raise",
     "new": "                    raise",
     "what": "async engine: queue not cleared when an event fails"},
    {"id": "m-state-set-before-on", "prop": "C04", "file": "statemachine/engines/sync.py",
     "old": "        result += self.sm._callbacks.call(transition.on.key, *args, **kwargs)\n\n        self.sm.current_state = target",
     "new": "        self.sm.current_state = target\n        result += self.sm._callbacks.call(transition.on.key, *args, **kwargs)\n",
     "what": "state assigned before the on group: a failure in on leaves the target stored"},
    {"id": "m-async-gather-return-exceptions", "prop": "C05", "file": "statemachine/callbacks.py",
     "old": "        return await asyncio.gather(\n            *(\n                callback(*args, **kwargs)\n                for callback in self\n                if callback.condition(*args, **kwargs)\n            )\n        )",
     "new": "        return await asyncio.gather(\n            *(\n                callback(*args, **kwargs)\n                for callback in self\n                if callback.condition(*args, **kwargs)\n            ),\n            return_exceptions=True,\n        )",
     "what": "async engine swallows exceptions of action callbacks (returned as results)"},
    {"id": "m-reserved-kwargs-unfiltered", "prop": "C07", "file": "statemachine/event.py",
     "old": "        kwargs = {k: v for k, v in kwargs.items() if k not in _event_data_kwargs}",
     "new": "        kwargs = dict(kwargs)",
     "what": "reserved names passed by the user are no longer stripped"},
    {"id": "m-is-active-by-name", "prop": "C10", "file": "statemachine/state.py",
     "old": "        return self._machine().current_state == self",
     "new": "        return self._machine().current_state.name == self.name",
     "what": "is_active compares state names instead of states"},
    {"id": "m-start-value-overrides-stored", "prop": "C11", "file": "statemachine/engines/base.py",
     "old": "        if self.sm.current_state_value is not None:\n            return\n",
     "new": "        if self.sm.current_state_value is not None and self.sm.start_value is None:\n            return\n",
     "what": "start_value overrides a state already stored in the model"},
    {"id": "m-multi-provider-guard-first-only", "prop": "C12", "file": "statemachine/dispatcher.py",
     "old": "        elif len(callbacks) == 1:\n            return callbacks[0]\n        else:\n            return reduce(custom_and, callbacks)",
     "new": "        else:\n            return callbacks[0]",
     "what": "a guard name provided by several objects is evaluated on the first provider only"},
    {"id": "m-allowed-events-not-unique", "prop": "C13", "file": "statemachine/transition_list.py",
     "old": "        tmp_ordered_unique_events_as_keys_on_dict = {}\n        for transition in self.transitions:\n            for event in transition.events:\n                tmp_ordered_unique_events_as_keys_on_dict[event] = True\n\n        return list(tmp_ordered_unique_events_as_keys_on_dict.keys())",
     "new": "        out = []\n        for transition in self.transitions:\n            for event in transition.events:\n                if not out or out[-1] != event:\n                    out.append(event)\n        return out",
     "what": "allowed_events only removes adjacent duplicates"},
    {"id": "m-single-list-result-not-unwrapped", "prop": "C14", "file": "statemachine/engines/sync.py",
     "old": "        elif len(result) == 1:",
     "new": "        elif len(result) == 1 and not isinstance(result[0], list):",
     "what": "a single callback returning a list is not unwrapped"},
    {"id": "m-instance-states-shared-per-class", "prop": "C16", "file": "statemachine/statemachine.py",
     "old": "        self._states_for_instance: Dict[State, State] = {}\n\n        self._listeners: Dict[Any, Any] = {}\n        \"\"\"Listeners that provides attributes to be used as callbacks.\"\"\"",
     "new": "        cls = type(self)\n        if \"_shared_states\" not in cls.__dict__:\n            cls._shared_states = {}\n        self._states_for_instance: Dict[State, State] = cls._shared_states\n\n        self._listeners: Dict[Any, Any] = {}\n        \"\"\"Listeners that provides attributes to be used as callbacks.\"\"\"",
     "what": "instance-state cache shared by all instances of a class"},
    {"id": "m-clone-resets-allow", "prop": "C17", "file": "statemachine/statemachine.py",
     "old": "        rtc = state.pop(\"_rtc\")\n",
     "new": "        rtc = state.pop(\"_rtc\")\n        state[\"allow_event_without_transition\"] = False\n",
     "what": "a clone silently resets allow_event_without_transition"},
]


def scratch_copy():
    d = tempfile.mkdtemp(prefix="pysm-mut-")
    shutil.copytree(os.path.join(REPO, "statemachine"), os.path.join(d, "statemachine"),
                    ignore=shutil.ignore_patterns("__pycache__"))
    return d


def apply_subst(d, m):
    p = os.path.join(d, m["file"])
    s = open(p).read()
    if s.count(m["old"]) != 1:
        return f"pattern occurs {s.count(m['old'])} times in {m['file']}"
    open(p, "w").write(s.replace(m["old"], m["new"]))
    return None


def apply_patch(d, patch_text, reverse=False):
    cmd = ["patch", "-p1", "-d", d, "--no-backup-if-mismatch", "-s"]
    if reverse:
        cmd.append("-R")
    r = subprocess.run(cmd, input=patch_text, text=True, capture_output=True)
    if r.returncode != 0:
        return (r.stdout + r.stderr)[-400:]
    return None


def run_check(pid, d, runs=None):
    env = dict(os.environ)
    env["VERIF_REPO"] = d
    env["VERIF_EVIDENCE_DIR"] = os.path.join(d, "evidence")
    env["VERIF_REPLAY_DIR"] = os.path.join(d, "replays")
    if runs:
        env["VERIF_RUNS"] = str(runs)
    t0 = time.time()
    r = subprocess.run([sys.executable, os.path.join(VERIF, "bin", "check"), pid, "--tier", "quick"],
                       env=env, capture_output=True, text=True)
    lines = [l for l in r.stdout.splitlines() if l.startswith(("VIOLATION", "  clause=", "HARNESS", "OK", "KNOWN"))]
    return r.returncode, lines, round(time.time() - t0, 1)


def mutants():
    out = []
    for m in CORPUS:
        out.append(dict(m, kind="corpus"))
    kf = json.load(open(os.path.join(VERIF, "known_findings.json")))
    for f in kf["findings"]:
        if f.get("status") == "fixed":
            # later fixes may have rewritten the same lines: ``revert_chain`` lists the commits to reverse,
            # newest first, ending with the fix itself
            out.append({"id": "rev-" + f["id"], "prop": f["property"], "kind": "reverse-fix", "commit": f["commit"],
                        "chain": f.get("revert_chain") or [f["commit"]],
                        "what": "reverse of " + "+".join(f.get("revert_chain") or [f["commit"]]) + ": " + f["what"]})
    sd = os.path.join(VERIF, "seeded")
    if os.path.isdir(sd):
        for name in sorted(os.listdir(sd)):
            mp = os.path.join(sd, name, "meta.json")
            pp = os.path.join(sd, name, "patch.diff")
            if os.path.exists(mp) and os.path.exists(pp):
                meta = json.load(open(mp))
                out.append({"id": "seeded-" + name, "prop": meta["property"], "kind": "seeded", "patch": pp,
                            "what": meta.get("summary", ""), "base_commit": meta.get("base_commit"),
                            "checks": meta.get("checks"), "apply_to_base": meta.get("apply_to_base"),
                            "expected_missed": meta.get("expected_missed"), "note": meta.get("note")})
    return out


def main():
    sel = os.environ.get("VERIF_SENS")
    sel = set(sel.split(",")) if sel else None
    cross = os.environ.get("VERIF_SENS_CROSS")  # also run the other properties' checks (false-alarm view)
    results = []
    bad = 0
    gaps = 0
    for m in mutants():
        if sel and m["id"] not in sel and m["prop"] not in sel:
            continue
        d = scratch_copy()
        try:
            if m["kind"] == "corpus":
                err = apply_subst(d, m)
            elif m["kind"] == "reverse-fix":
                err = None
                for c_ in m["chain"]:
                    diff = subprocess.run(["git", "-C", REPO, "show", c_, "--", "statemachine"],
                                          capture_output=True, text=True).stdout
                    err = apply_patch(d, diff, reverse=True)
                    if err:
                        break
            else:
                err = "evaluated on its base commit" if m.get("apply_to_base") else apply_patch(d, open(m["patch"]).read())
                if err and m.get("base_commit"):
                    # the tree moved on (a later fix rewrote the lines the patch touches): fall back to
                    # the commit the change was written against
                    shutil.rmtree(d, ignore_errors=True)
                    d = tempfile.mkdtemp(prefix="pysm-mut-")
                    ar = subprocess.run(["git", "-C", REPO, "archive", m["base_commit"], "statemachine"],
                                        capture_output=True)
                    subprocess.run(["tar", "-x", "-C", d], input=ar.stdout)
                    err = apply_patch(d, open(m["patch"]).read())
                    m["what"] += " [applied to its base commit " + m["base_commit"] + "]"
            if err:
                print(f"sensitivity {m['id']}: COULD NOT APPLY ({err})")
                results.append(dict(id=m["id"], prop=m["prop"], status="not-applicable", error=err))
                bad += 1
                continue
            code, lines, wall = run_check(m["prop"], d)
            caught = code == 1 and any(l.startswith("VIOLATION") for l in lines)
            by = m["prop"]
            for other in (m.get("checks") or [])[1:]:
                if caught:
                    break
                # the change also falls under another property whose check is the one that sees it
                code, lines, w2 = run_check(other, d)
                wall += w2
                caught = code == 1 and any(l.startswith("VIOLATION") for l in lines)
                by = other
            if caught and by != m["prop"]:
                lines = [f"(caught by {by}) " + (lines[0] if lines else "")] + lines[1:]
            gap = bool(m.get("expected_missed")) and not caught
            results.append(dict(id=m["id"], prop=m["prop"], kind=m["kind"], what=m["what"], exit=code,
                                caught=caught, wall_s=wall, lines=lines[:4],
                                known_gap=(m.get("note") if gap else None)))
            verdict = "CAUGHT" if caught else ("MISSED - KNOWN GAP" if gap else "MISSED (exit %d)" % code)
            print(f"sensitivity {m['id']:45s} {m['prop']}: {verdict} "
                  f"in {wall}s  {lines[0][:140] if lines else ''}", flush=True)
            if not caught and not gap:
                bad += 1
            if gap:
                gaps += 1
            if cross:
                from . import campaign as campaign_mod
                from . import campaigns  # noqa: F401

                for pid in sorted(campaign_mod.REGISTRY):
                    if pid == m["prop"]:
                        continue
                    c2, l2, w2 = run_check(pid, d, runs=600)
                    if c2 != 0:
                        print(f"     also reported by {pid} (exit {c2}): {l2[0][:150] if l2 else ''}", flush=True)
                        results[-1].setdefault("also", []).append({"prop": pid, "exit": c2, "line": l2[:2]})
        finally:
            shutil.rmtree(d, ignore_errors=True)
    os.makedirs(os.path.join(VERIF, "evidence"), exist_ok=True)
    # (a run restricted with VERIF_SENS is a partial view: it must not replace the full record)
    target = os.path.join(VERIF, "evidence", "selftest.json") if not sel else \
        os.path.join(tempfile.gettempdir(), "selftest.partial.json")
    with open(target, "w") as f:
        json.dump({"sensitivity": results, "missed": bad, "known_gaps": gaps}, f, indent=1)
    print(f"sensitivity: {len(results) - bad - gaps}/{len(results)} mutants caught"
          + (f", {gaps} known gap(s) (see seeded/<name>/meta.json 'note')" if gaps else ""))
    return 0 if not bad else 2
