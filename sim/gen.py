"""Seeded generators of abstract programs, behaviours and workloads (DESIGN §2.2).

Everything is drawn from one ``random.Random`` so that one integer decides the whole scenario.
Only well-formed machines are generated (one initial state, every state reachable, no transition
out of a final state, no trap state): class-definition validation is C09 (not applicable here).
"""

import random

from .ref import Ref
from .ref import RefInst
from .ref import RefProgram

EVENT_POOL = ["ev", "ev_x", "go", "go_back", "tick", "e3", "advance", "ev_x2"]

DELAYS = [None, 0, 0, 0.001, 0.002, 0.005, 1, 60, 3600]

RET_VALUES = [None, 0, "", [], False, 1, "r", [1, 2], {"$tu": [1, 2]}, {"$tu": []}, {"a": 1}, {"$d": []},
              {"$exc": ["ValueError", "a value, not a failure"]}, {"$exc": ["KeyError", "k"]}]

DEFAULT_KNOBS = dict(
    states=(2, 5),
    events=(1, 4),
    extra_trans=(0, 6),
    p_multi_event=0.25,
    p_self=0.15,
    p_internal=0.10,
    p_dup_candidate=0.45,
    p_final=0.35,
    p_cond=0.5,
    p_unless=0.3,
    p_validator=0.2,
    p_action=0.35,
    p_state_action=0.3,
    p_conv=0.25,
    p_shared_name=0.25,
    listeners=(0, 2),
    p_model_cb=0.25,
    p_listener_cb=0.25,
    async_modes=["none"],
    senders=(0, 0),
    sends_per=(1, 2),
    sends_jlt=(1, 2),
    sender_groups=("validators", "before", "exit", "on", "enter", "after"),
    p_expr_guard=0.0,
    p_multi_guard_provider=0.0,
    n_ops=(5, 25),
    p_unknown_event=0.1,
    p_kwargs=0.5,
    p_call_style=0.3,
    rtc=[True, True, False],
    allow=[False, False, True],
    drivers=["sync"],
    p_ret=0.5,
    p_true=0.6,
    p_delay=0.6,
    sig_palette="basic",
    start_value_p=0.0,
    value_kinds=["id", "id", "int"],
    p_assign_style=0.3,
    p_multi_group_name=0.0,
    p_from_any=0.0,
    p_event_obj=0.0,
    p_event_decl=0.0,
    p_decl_style=0.0,
    p_multi_source=0.0,
    p_or_group=0.0,
    p_devent=0.0,
    p_attach_style=0.0,
    p_awaitable=0.0,
    p_prop_guard=0.0,
    p_guard_any_value=0.0,
    p_plain_sender=0.0,
)


def knobs(**over):
    k = dict(DEFAULT_KNOBS)
    k.update(over)
    return k


def ri(rnd, lohi):
    return rnd.randint(lohi[0], lohi[1])


def P(name, kind="pk", **kw):
    d = {"name": name, "kind": kind}
    d.update(kw)
    return d


def basic_sig(rnd):
    c = rnd.randrange(12)
    if c == 0:
        return []
    if c == 1:
        return [P("event"), P("source"), P("target")]
    if c == 2:
        return [P("state")]
    if c == 3:
        return [P("kw", "varkw")]
    if c == 4:
        return [P("args", "var"), P("kw", "varkw")]
    if c == 5:
        return [P("event_data")]
    if c == 6:
        return [P("x", default=None)]
    if c == 7:
        return [P("event"), P("x", default=None), P("kw", "varkw")]
    if c == 8:
        return [P("target", "ko"), P("state", "ko")]
    if c == 9:
        return [P("source"), P("y", "ko", default=7)]
    if c == 10:
        return [P("machine"), P("model"), P("event")]
    return [P("state"), P("event"), P("source"), P("target"), P("x", default=0)]


# --------------------------------------------------------------------------------------------
# program
# --------------------------------------------------------------------------------------------


def gen_program(rnd, k, idx=0, name=None):
    name = name or f"M{idx}"
    prog = {"name": name, "module": f"simgen_{name.lower()}", "states": [], "trans": [], "cbs": {},
            "listeners": [], "model": {"kind": "attr", "field": "state"}}
    ns = ri(rnd, k["states"])
    vk = rnd.choice(k["value_kinds"])
    ids = [f"s{i}" for i in range(ns)]
    init = rnd.randrange(ns) if rnd.random() < 0.3 else 0
    order = [ids[init]] + [s for i, s in enumerate(ids) if i != init]
    finals = set()
    if ns >= 3 and rnd.random() < k["p_final"]:
        for s in rnd.sample(order[1:], rnd.randint(1, min(2, ns - 2))):
            finals.add(s)
    for i, s in enumerate(ids):
        st = {"id": s, "initial": s == ids[init], "final": s in finals}
        if vk == "int":
            st["value"] = i  # includes 0
        prog["states"].append(st)
    ne = ri(rnd, k["events"])
    events = rnd.sample(EVENT_POOL, ne)
    nonfinal = [s for s in ids if s not in finals]

    def new_t(src, dst):
        evs = [rnd.choice(events)]
        if len(events) > 1 and rnd.random() < k["p_multi_event"]:
            e2 = rnd.choice(events)
            if e2 not in evs:
                evs.append(e2)
        t = {"src": src, "dst": dst, "events": evs}
        if src == dst and rnd.random() < 0.5 and k["p_internal"] > 0:
            t["internal"] = True
        return t

    trans = []
    # spanning structure: every state reachable from the initial one
    reach = [order[0]]
    for s in order[1:]:
        srcs = [r for r in reach if r not in finals]
        trans.append(new_t(rnd.choice(srcs), s))
        reach.append(s)
    for _ in range(ri(rnd, k["extra_trans"])):
        src = rnd.choice(nonfinal)
        r = rnd.random()
        if r < k["p_self"]:
            dst = src
        else:
            dst = rnd.choice(ids)
        t = new_t(src, dst)
        if src == dst and rnd.random() < k["p_internal"] / max(k["p_self"], 0.01):
            t["internal"] = True
        trans.append(t)
    # more candidates for an existing (state, event) pair
    for t in list(trans):
        if rnd.random() < k["p_dup_candidate"] and len(trans) < 14:
            t2 = {"src": t["src"], "dst": rnd.choice(ids), "events": list(t["events"])}
            trans.append(t2)
    # no trap states
    for s in nonfinal:
        if not any(t["src"] == s for t in trans):
            trans.append(new_t(s, rnd.choice(ids)))
    rnd.shuffle(trans)
    for t in trans:
        if t.get("internal") and t["src"] != t["dst"]:
            del t["internal"]
    prog["trans"] = trans
    # single-event transitions may be declared with the assignment style ``ev = a.to(b)``;
    # assigning adds the attribute's name as an event to the transition, so only when it matches
    seen_assign = set()
    anyd = []
    if rnd.random() < k["p_from_any"]:
        # ``ev = target.from_.any(...)`` declarations: a transition to <target> from every non-final state
        for _ in range(rnd.randint(1, 2)):
            spare = [e for e in EVENT_POOL if e not in events and e not in seen_assign]
            e = rnd.choice(spare) if spare and rnd.random() < 0.5 else rnd.choice(events)
            if e in seen_assign:
                continue
            seen_assign.add(e)  # the attribute name is taken
            a = {"src": "<any>", "dst": rnd.choice(ids), "events": [e]}
            if rnd.random() < 0.4:
                a["alias"] = "alias_" + e  # ``event=`` given to from_.any(): not an event of the machine
            anyd.append(a)
            if e not in events:
                events.append(e)
        prog["any"] = anyd
    if rnd.random() < k["p_event_decl"]:
        # events declared as stand-alone ``ev = Event(name=...)`` attributes (no id: it comes from the
        # attribute) and handed to the transitions through ``event=``, alone or in a list
        free_ev = [e for e in events if e not in seen_assign and any(e in t["events"] for t in trans)]
        rnd.shuffle(free_ev)
        decl = free_ev[: rnd.randint(1, 2)]
        if decl:
            prog["event_decl"] = sorted(decl)
            seen_assign.update(decl)
    if rnd.random() < k["p_or_group"]:
        # ``ev = a.to(b, ...) | c.to(d, ...)``: several transitions composed into one event attribute
        cands = sorted(e for e in events if e not in seen_assign and sum(1 for t in trans if t["events"] == [e]) >= 2)
        if cands:
            e = rnd.choice(cands)
            members = [t for t in trans if t["events"] == [e]][:3]
            rest = [t for t in trans if not any(t is m_ for m_ in members)]
            at = rnd.randrange(len(rest) + 1)
            for m_ in members:
                m_["orgroup"] = e
            trans[:] = rest[:at] + members + rest[at:]
            seen_assign.add(e)
    if rnd.random() < k["p_devent"]:
        # ``@a.to(b)`` used as a decorator: the function's name becomes the event and the function itself
        # is an ``on`` callback of that transition
        cands = [t for t in trans if len(t["events"]) == 1 and t["events"][0] not in seen_assign
                 and not t.get("orgroup")]
        if cands:
            t = rnd.choice(cands)
            e = t["events"][0]
            t["devent"] = True
            t.setdefault("on", []).append(e)
            prog["cbs"][f"machine.{e}"] = {"group": "on", "sig": basic_sig(rnd), "style": "devent"}
            seen_assign.add(e)
    for t in trans:
        if len(t["events"]) == 1 and rnd.random() < k["p_assign_style"] and t["events"][0] not in seen_assign:
            t["assign"] = t["events"][0]
            seen_assign.add(t["events"][0])
            if rnd.random() < k["p_event_obj"]:
                t["assign_event"] = True
    if k["p_decl_style"] > 0:
        for t in trans:
            if rnd.random() < k["p_decl_style"]:
                # ``b.from_(a, ...)`` / ``a.to.itself(...)`` instead of ``a.to(b, ...)``
                t["decl"] = "itself" if t["src"] == t["dst"] and rnd.random() < 0.6 else "from"
    events = [e for e in events if any(e in t["events"] for t in trans + anyd)]
    prog["events"] = events

    # providers
    nl = ri(rnd, k["listeners"])
    prog["listeners"] = [f"L{i}" for i in range(nl)]
    roles = ["machine", "model"] + prog["listeners"]

    def pick_roles(guard=False):
        r = rnd.random()
        out = ["machine"]
        if r < k["p_model_cb"]:
            out = ["model"]
        elif r < k["p_model_cb"] + k["p_listener_cb"] and prog["listeners"]:
            out = [rnd.choice(prog["listeners"])]
        if not guard and rnd.random() < 0.15:
            extra = rnd.choice(roles)
            if extra not in out:
                out.append(extra)
        if guard == "cond" and rnd.random() < k["p_multi_guard_provider"]:
            extra = rnd.choice(roles)
            if extra not in out:
                out.append(extra)
        return out

    counters = {}
    pools = {}

    def fresh(prefix, group, guard=False):
        pool = pools.setdefault(prefix, [])
        if pool and rnd.random() < k["p_shared_name"]:
            return rnd.choice(pool)
        n = counters.get(prefix, 0)
        counters[prefix] = n + 1
        nm = f"{prefix}{n}"
        for role in pick_roles(guard):
            prog["cbs"][f"{role}.{nm}"] = {"group": group, "sig": basic_sig(rnd)}
        pool.append(nm)
        return nm

    def add_unique(lst, nm):
        if nm not in lst:
            lst.append(nm)

    for t in trans + anyd:
        if rnd.random() < k["p_validator"]:
            t.setdefault("validators", [])
            for _ in range(rnd.randint(1, 2)):
                add_unique(t["validators"], fresh("v_", "validators"))
        if rnd.random() < k["p_cond"]:
            t.setdefault("cond", [])
            for _ in range(rnd.randint(1, 2)):
                add_unique(t["cond"], fresh("g_", "cond", guard="cond"))
        if rnd.random() < k["p_unless"]:
            t.setdefault("unless", [])
            add_unique(t["unless"], fresh("u_", "unless", guard="unless"))
        for g, pre in (("before", "b_"), ("on", "o_"), ("after", "a_")):
            if rnd.random() < k["p_action"]:
                t.setdefault(g, [])
                for _ in range(rnd.randint(1, 3)):
                    add_unique(t[g], fresh(pre, g))
    for s in prog["states"]:
        if rnd.random() < k["p_state_action"]:
            s.setdefault("enter", [])
            for _ in range(rnd.randint(1, 2)):
                add_unique(s["enter"], fresh("en_", "enter"))
        if not s["final"] and rnd.random() < k["p_state_action"]:
            s.setdefault("exit", [])
            add_unique(s["exit"], fresh("ex_", "exit"))
    # the same callable attached to several groups of one transition / one state
    if k["p_multi_group_name"] > 0:
        for t in trans + anyd:
            have = [g for g in ("before", "on", "after") if t.get(g)]
            if have and rnd.random() < k["p_multi_group_name"]:
                nm = rnd.choice(t[rnd.choice(have)])
                if (prog["cbs"].get("machine." + nm) or {}).get("style") == "devent":
                    continue  # that name is the event trigger itself
                for g in ("before", "on", "after"):
                    if rnd.random() < 0.6:
                        add_unique(t.setdefault(g, []), nm)
        for s in prog["states"]:
            if s.get("enter") and not s["final"] and rnd.random() < k["p_multi_group_name"]:
                add_unique(s.setdefault("exit", []), rnd.choice(s["enter"]))
    # naming-convention callbacks
    conv = [("before_transition", "before"), ("on_transition", "on"), ("after_transition", "after"),
            ("on_enter_state", "enter"), ("on_exit_state", "exit")]
    for s in ids:
        conv.append((f"on_enter_{s}", "enter"))
        if s not in finals:
            conv.append((f"on_exit_{s}", "exit"))
    for e in events:
        conv.extend([(f"before_{e}", "before"), (f"on_{e}", "on"), (f"after_{e}", "after")])
    for nm, g in conv:
        if rnd.random() < k["p_conv"]:
            for role in pick_roles():
                prog["cbs"][f"{role}.{nm}"] = {"group": g, "sig": basic_sig(rnd)}
    # guards inside boolean expressions
    if k["p_expr_guard"] > 0:
        gnames = sorted({c.split(".", 1)[1] for c, m in prog["cbs"].items() if m["group"] == "cond"})
        for t in trans + anyd:
            if gnames and rnd.random() < k["p_expr_guard"]:
                a = rnd.choice(gnames)
                b = rnd.choice(gnames)
                form = rnd.choice(["{a} and {b}", "{a} or {b}", "not {a}", "{a} and not {b}",
                                   "not {a} or {b}", "{a} == {b}", "{a} != {b}", "{a} > {b}", "{a} <= {b}"])
                t.setdefault("cond", []).append(form.format(a=a, b=b))
    if rnd.random() < k["p_multi_source"]:
        # ``c.from_(a, b, ...)``: one declaration, one transition per source state (same target, same
        # events, guards and actions)
        cands = [t for t in trans if not any(t.get(f) for f in ("assign", "orgroup", "devent", "internal"))]
        others = lambda t: [s_ for s_ in nonfinal if s_ != t["src"]]  # noqa: E731
        cands = [t for t in cands if others(t)]
        if cands:
            import copy as _copy

            t = rnd.choice(cands)
            t2 = _copy.deepcopy(t)
            t2["src"] = rnd.choice(others(t))
            t["msrc"] = t2["msrc"] = f"m{trans.index(t)}"
            t["decl"] = t2["decl"] = "from"
            trans.insert(trans.index(t) + 1, t2)
    assign_styles(rnd, prog, k["p_attach_style"])
    if k["p_prop_guard"] > 0:
        # guards given as the name of a PROPERTY (no call, no arguments): evaluated by reading it
        for c in sorted(prog["cbs"]):
            m = prog["cbs"][c]
            if m["group"] in ("cond", "unless") and not m.get("style") and rnd.random() < k["p_prop_guard"]:
                m["prop"] = True
                m["sig"] = []
    return prog


def assign_styles(rnd, prog, p):
    """Attach some machine-defined callbacks by callable object or by decorator instead of by name.
    Only names that the machine alone provides (a callable reference is not looked up on the model
    or on listeners), and for decorators only where the decorator syntax can express it."""
    if p <= 0:
        return
    provs = {}
    for c in prog["cbs"]:
        provs.setdefault(c.split(".", 1)[1], []).append(c)
    conv = {"before_transition", "on_transition", "after_transition", "on_enter_state", "on_exit_state"}
    for c in sorted(prog["cbs"]):
        if not c.startswith("machine."):
            continue
        name = c.split(".", 1)[1]
        if len(provs[name]) != 1 or name in conv or name.startswith(("on_enter_", "on_exit_")):
            continue
        if prog["cbs"][c].get("style"):
            continue
        uses_t = [(t, g) for t in prog["trans"] + prog.get("any", [])
                  for g in ("validators", "cond", "unless", "before", "on", "after") if name in t.get(g, [])]
        uses_s = [(s_, g) for s_ in prog["states"] for g in ("enter", "exit") if name in s_.get(g, [])]
        if not uses_t and not uses_s:
            continue  # a naming-convention callback (before_<event> ...)
        in_expr = any(name in e and not e.isidentifier() for t in prog["trans"] + prog.get("any", [])
                      for e in list(t.get("cond", [])) + list(t.get("unless", [])))
        if in_expr or rnd.random() >= p:
            continue
        deco_ok = all(t.get("assign") for t, _g in uses_t)
        # a decorator on an assigned TransitionList adds the callback to every transition of that list
        if deco_ok and rnd.random() < 0.5:
            prog["cbs"][c]["style"] = "decorator"
        elif rnd.random() < 0.35 and prog["cbs"][c]["group"] not in ("cond", "unless"):
            # a free callable (closure made by a factory) passed inline: it belongs to no provider
            prog["cbs"][c]["style"] = "closure"
            prog["cbs"][c]["sig"] = [P("args", "var"), P("kw", "varkw")]
        else:
            prog["cbs"][c]["style"] = "callable"


def all_roles(prog):
    return ["machine", "model"] + list(prog.get("listeners", []))


def group_instances(prog, roles=None):
    """Every possible action/validator group instance: list of lists of cbids."""
    rp = RefProgram(prog)
    ref = type("R", (), {"model_state": {}})()
    inst = RefInst(ref, "_", rp, {}, roles or all_roles(prog))
    out = []
    for t in [dict(t, idx=i) for i, t in enumerate(rp.trans)]:
        for ev in t["events"]:
            for kind in ("validators", "before", "exit", "on", "enter", "after"):
                if kind in ("exit", "enter") and t.get("internal"):
                    continue
                m = inst.members(kind, t, ev)
                if m:
                    out.append((kind, t["idx"], ev, m))
    for s in prog["states"]:
        # initial activation can start in any state through start_value
        inst.start_value = None
        t = {"src": s["id"], "dst": s["id"], "events": [], "idx": -1}
        m = inst.members("enter", t, "__initial__")
        if m:
            out.append(("enter", -1, "__initial__", m))
    return out


def choose_effectful(rnd, prog, n, groups, roles=None):
    """Pick up to n callbacks such that no group instance holds two of them (DESIGN §2.4)."""
    gis = group_instances(prog, roles)
    by_cb = {}
    for gi in gis:
        for c in gi[3]:
            by_cb.setdefault(c, []).append(gi)
    cands = [c for c in sorted(by_cb) if prog["cbs"][c]["group"] in groups]
    rnd.shuffle(cands)
    chosen = []
    taken = set()
    for c in cands:
        if len(chosen) >= n:
            break
        gids = {(g[0], g[1], g[2]) for g in by_cb[c]}
        if gids & taken:
            continue
        chosen.append(c)
        taken |= gids
    return chosen


def set_async(rnd, prog, mode, must_async=()):
    cbs = prog["cbs"]
    if mode == "none":
        return
    keys = sorted(cbs)
    if not keys:
        return
    if mode == "all":
        for c in keys:
            cbs[c]["async"] = True
    elif mode == "one":
        c = rnd.choice(keys)
        cbs[c]["async"] = True
    elif mode == "mixed":
        for c in keys:
            if rnd.random() < 0.5:
                cbs[c]["async"] = True
    elif mode == "guards":
        for c in keys:
            if cbs[c]["group"] in ("cond", "unless"):
                cbs[c]["async"] = True
    elif mode == "actions":
        for c in keys:
            if cbs[c]["group"] not in ("cond", "unless", "validators"):
                cbs[c]["async"] = True
    for c in keys:
        if cbs[c].get("prop"):
            cbs[c].pop("async", None)  # a property cannot be a coroutine function
    if any(m.get("async") for m in cbs.values()):
        for c in must_async:
            cbs[c]["async"] = True


def ensure_machine_param(prog, cbid):
    if cbid.startswith("machine."):
        return
    sig = prog["cbs"][cbid].setdefault("sig", [])
    if not any(p["name"] == "machine" for p in sig):
        sig.insert(0, P("machine"))


def gen_behaviours(rnd, prog, k, n_ops, senders):
    beh = {}
    gv = {}
    ns = len(prog["states"])
    events = prog["events"]
    name = prog["name"]
    for c in sorted(prog["cbs"]):
        meta = prog["cbs"][c]
        full = f"{name}/{c}"
        rule = {}
        if meta["group"] in ("cond", "unless"):
            vals = []
            for _ in range(max(n_ops, 1)):
                bits = 0
                for i in range(ns):
                    if rnd.random() < (k["p_true"] if meta["group"] == "cond" else 1 - k["p_true"]):
                        bits |= 1 << i
                vals.append(bits)
            gv[full] = vals
        if meta["group"] in ("before", "on") or rnd.random() < 0.15:
            if rnd.random() < k["p_ret"]:
                rule["ret"] = rnd.choice(RET_VALUES)
                if rule["ret"] == "r":
                    rule["ret"] = f"r{rnd.randrange(1000)}"
        if meta.get("async") and rnd.random() < k["p_delay"]:
            d = rnd.choice(DELAYS)
            if d is not None:
                rule["pre"] = d
            d = rnd.choice(DELAYS)
            if d is not None and rnd.random() < 0.4:
                rule["post"] = d
        if c in senders:
            sends = []
            for _ in range(ri(rnd, k["sends_per"])):
                s = {"event": rnd.choice(events)}
                r = rnd.random()
                if r < 0.3:
                    s["kwargs"] = {"x": rnd.randrange(100, 999)}
                elif r < 0.45:
                    s["fwd"] = ["x"]
                    sig = meta.setdefault("sig", [])
                    if not any(p_["name"] == "x" for p_ in sig):
                        pos = len([p_ for p_ in sig if p_["kind"] in ("po", "pk")])
                        sig.insert(pos, P("x", default=None))
                if rnd.random() < 0.25:
                    s["style"] = "call"
                sends.append(s)
            rule["sends"] = sends
            rule["sends_jlt"] = ri(rnd, k["sends_jlt"])
            rule["sends_dplt"] = rnd.randint(1, 3)
        if rule:
            beh[full] = [rule]
    return beh, gv


def gen_ops(rnd, prog, k, inst="A", first_new=True, n_ops=None, new_kw=None):
    ops = []
    if first_new:
        op = {"op": "new", "inst": inst, "prog": 0, "listeners": list(prog.get("listeners", [])),
              "rtc": rnd.choice(k["rtc"]), "allow": rnd.choice(k["allow"])}
        if new_kw:
            op.update(new_kw)
        ops.append(op)
    n = n_ops if n_ops is not None else ri(rnd, k["n_ops"])
    uniq = 1000
    for _ in range(n):
        if rnd.random() < k["p_unknown_event"]:
            ev = rnd.choice(["zz_unknown", "ev_", "e", "go_", "nothing_here"])
            if ev in prog["events"]:
                ev = "zz_unknown"
            style = "send"
        else:
            ev = rnd.choice(prog["events"])
            style = "call" if rnd.random() < k["p_call_style"] else "send"
        op = {"op": "send", "inst": inst, "event": ev, "style": style}
        if rnd.random() < k["p_kwargs"]:
            uniq += 1
            op["kwargs"] = {"x": uniq}
            if rnd.random() < 0.3:
                op["kwargs"]["y"] = uniq + 5000
        ops.append(op)
    return ops


def _expr_names_of(expr):
    from .ref import _expr_names

    return _expr_names(expr)


def gen_scenario(rnd, k, profile="generic"):
    prog = gen_program(rnd, k)
    mode = rnd.choice(k["async_modes"])
    nsend = ri(rnd, k["senders"])
    senders = choose_effectful(rnd, prog, nsend, k["sender_groups"]) if nsend else []
    for c in senders:
        ensure_machine_param(prog, c)
    set_async(rnd, prog, mode, must_async=senders)
    is_async = any(m.get("async") for m in prog["cbs"].values())
    if is_async and senders and rnd.random() < k["p_plain_sender"]:
        # a PLAIN function of an async machine sends an event: it cannot await the coroutine it gets
        # back, but the event is queued by the call itself and runs after the current one
        c = rnd.choice(senders)
        if any(m.get("async") for c2, m in prog["cbs"].items() if c2 != c):
            prog["cbs"][c].pop("async", None)
            prog["cbs"][c]["plain_sender"] = True
    if is_async and k["p_awaitable"] > 0:
        for c in sorted(prog["cbs"]):
            m = prog["cbs"][c]
            if not m.get("async") and m["group"] not in ("cond", "unless") and not m.get("style") \
                    and not m.get("plain_sender") and rnd.random() < k["p_awaitable"]:
                m["awaitable"] = True
    ops = gen_ops(rnd, prog, k)
    if is_async:
        ops[0]["rtc"] = True
    beh, gv = gen_behaviours(rnd, prog, k, len(ops), senders)
    # (operands of comparison expressions keep bool values: ``3 > "x"`` is a TypeError in Python itself)
    cmp_names = set()
    for t in prog["trans"] + prog.get("any", []):
        for e in list(t.get("cond", [])) + list(t.get("unless", [])):
            if any(op_ in e for op_ in ("==", "!=", ">", "<")):
                cmp_names.update(_expr_names_of(e))
    gv_kind = {c: "any" for c in sorted(gv) if rnd.random() < k["p_guard_any_value"]
               and c.split(".", 1)[1] not in cmp_names}
    sc = {"profile": profile, "programs": [prog], "beh": beh, "gv": gv, "gv_kind": gv_kind, "ops": ops,
          "driver": rnd.choice(k["drivers"]), "perm_seed": rnd.randrange(1 << 30)}
    return sc
