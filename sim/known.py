"""Known findings (genuine defects recorded rather than repaired) and fixed entries.

The file /verif/known_findings.json is committed and NEVER written at run time.  An entry with
status "known" suppresses exactly the violations whose signature contains its ``match`` items; a
"fixed" entry suppresses nothing (if the violation returns it is reported again).
"""

import json
import os

_PATH = os.path.join(os.path.dirname(os.path.dirname(os.path.abspath(__file__))), "known_findings.json")
_cache = {}


def load():
    if "d" not in _cache:
        try:
            with open(_PATH) as f:
                _cache["d"] = json.load(f)
        except FileNotFoundError:
            _cache["d"] = {"findings": []}
    return _cache["d"]


def listed(pid):
    return [f for f in load()["findings"] if f["property"] == pid and f.get("status") == "known"]


def by_id(kid):
    for f in load()["findings"]:
        if f["id"] == kid:
            return f
    return None


def _sub(m, sig):
    for k, v in m.items():
        if sig.get(k) != v:
            return False
    return True


def match(pid, sig):
    for f in listed(pid):
        if _sub(f["match"], sig):
            return f
    return None
