"""Self-tests of the simulator (DESIGN §2.13): determinism (same seed twice in-process, and once more
in a fresh interpreter under another PYTHONHASHSEED) and, on demand, sensitivity (mutant corpus)."""

import json
import os
import random
import subprocess
import sys
import time

from . import campaign as campaign_mod
from .campaign import run_seed

VERIF = os.path.dirname(os.path.dirname(os.path.abspath(__file__)))


def digests(pid, n, tier="quick"):
    camp = campaign_mod.get(pid)
    out = []
    for i in range(n):
        rs = run_seed(12345, pid, tier, i)
        sc = camp.scenario(random.Random(rs), tier)
        if sc is None:
            out.append(None)
            continue
        ev = camp.evaluate(sc)
        out.append([ev["res"]["digest"], len(ev["violations"])])
    return out


def main(a):
    from . import campaigns  # noqa: F401

    if os.environ.get("VERIF_SELFTEST_CHILD"):
        pid, n = os.environ["VERIF_SELFTEST_CHILD"].split(":")
        print("DIGESTS " + json.dumps(digests(pid, int(n))))
        return 0
    if a.sensitivity:
        from . import sensitivity

        return sensitivity.main()
    t0 = time.time()
    n = int(os.environ.get("VERIF_SELFTEST_N", "12"))
    bad = 0
    procs = {}
    for pid in sorted(campaign_mod.REGISTRY):
        env = dict(os.environ)
        env["PYTHONHASHSEED"] = "77"
        env["VERIF_SELFTEST_CHILD"] = f"{pid}:{n}"
        procs[pid] = subprocess.Popen([sys.executable, "-c",
                                       "import sys; sys.path[:0]=[%r,%r]; sys.dont_write_bytecode=True; "
                                       "from sim.cli import main; sys.exit(main(['selftest']))"
                                       % (VERIF, os.environ.get("VERIF_REPO", "/repo"))],
                                      env=env, stdout=subprocess.PIPE, stderr=subprocess.PIPE, text=True)
    for pid in sorted(campaign_mod.REGISTRY):
        a1 = digests(pid, n)
        a2 = digests(pid, n)
        out, err = procs[pid].communicate(timeout=900)
        line = [l for l in out.splitlines() if l.startswith("DIGESTS ")]
        a3 = json.loads(line[0][8:]) if line else None
        ok = a1 == a2 == a3
        print(f"selftest determinism {pid}: {n} seeds x (2 in-process + 1 fresh interpreter, "
              f"PYTHONHASHSEED=77): {'identical' if ok else 'DIVERGED'}")
        if not ok:
            bad += 1
            if a3 is None:
                print(err[-2000:])
            else:
                for i, (x, y, z) in enumerate(zip(a1, a2, a3)):
                    if not (x == y == z):
                        print(f"   seed#{i}: {x} {y} {z}")
    print(f"selftest done in {time.time() - t0:.1f}s: {'OK' if not bad else 'FAILED'}")
    return 0 if not bad else 2
