"""Execute a Scenario on the REAL library under the simulator and return the trace."""

import asyncio
import gc
import hashlib
import json
import os
import sys
import threading
import warnings

from . import render
from . import vloop
from .simrt import SIM
from .simrt import SimBaseFault
from .simrt import dec
from .simrt import enc
from .vloop import SimDeadlock
from .vloop import SimStepCap

REPO = os.environ.get("VERIF_REPO", "/repo")


class HarnessError(Exception):
    pass


_lib = {}


def lib():
    """Import the library from the working tree under test (once per process)."""
    if not _lib:
        if REPO not in sys.path:
            sys.path.insert(0, REPO)
        import statemachine
        from statemachine import signature

        here = os.path.realpath(os.path.dirname(statemachine.__file__))
        want = os.path.realpath(os.path.join(REPO, "statemachine"))
        if here != want:
            raise HarnessError(f"statemachine imported from {here}, expected {want}")
        _lib["sm"] = statemachine
        _lib["signature"] = signature
        vloop.install()
    return _lib


def hygiene():
    l = lib()
    try:
        l["signature"].SignatureAdapter.from_callable.clear_cache()
    except Exception:
        # a refactored cache: nothing to clear from outside; runs stay independent as long as the
        # cache is keyed soundly, which is what C07/C16 check
        pass
    vloop.reset_loops()
    try:
        from statemachine import registry

        registry._initialized = True  # no django autodiscovery inside the simulation
    except Exception:
        pass


def digest(trace):
    h = hashlib.sha256()
    for r in trace:
        if "d" in r:
            # absolute call-stack depth depends on who called the harness (pool worker, replay, ...):
            # it is compared within a run (C03) but is not part of the run's identity
            r = {k: v for k, v in r.items() if k != "d"}
        h.update(json.dumps(r, sort_keys=True, default=str).encode())
    return h.hexdigest()[:16]


class Runner:
    """Executes the ops of one scenario.  Sub-classes add ops for specific campaigns."""

    def __init__(self, scenario):
        self.sc = scenario
        self.mods = {}
        self.objs = {}  # tag -> {"sm":..., "model":..., "listeners": {role: obj}}
        self.outs = []
        self.loaded = []

    # ------------------------------------------------------------------ set-up / tear-down
    def setup(self):
        hygiene()
        sc = self.sc
        sidx = {}
        for p in sc["programs"]:
            sidx[p["name"]] = render.state_index_map(p)
        sc_rt = dict(sc)
        sc_rt["sidx"] = sidx
        SIM.reset(sc_rt)
        SIM.on_snapshot = self.snapshot_from_callback
        vloop.set_perm_seed(sc.get("perm_seed", 0))
        for i, p in enumerate(sc["programs"]):
            if not p.get("deferred"):
                self.load(i)

    def load(self, i):
        p = self.sc["programs"][i]
        src = (self.sc.get("sources") or {}).get(p["module"])
        self.mods[i] = render.load_program(p, src)
        self.loaded.append(p)
        for en in p.get("enums", []):
            SIM.enums[en["name"]] = getattr(self.mods[i], en["name"])
        if p.get("enum_import"):
            SIM.enums[p["enum_import"][1]] = getattr(self.mods[i], p["enum_import"][1])

    def teardown(self):
        for p in self.loaded:
            render.unload_program(p)
        self.loaded = []
        self.objs = {}
        SIM.machines = {}
        SIM.models = {}
        vloop.reset_loops()

    # ------------------------------------------------------------------ ops
    def do_new(self, op):
        i = op["prog"]
        p = self.sc["programs"][i]
        mod = self.mods[i]
        tag = op["inst"]
        pn = render.pyname(p)
        cls = getattr(mod, pn)
        mk = (p.get("model") or {}).get("kind", "attr")
        field = (p.get("model") or {}).get("field", "state")
        ent = self.objs.get(tag) if op.get("keep_model") else None
        old = ent
        ent = {"listeners": dict((old or {}).get("listeners", {})), "field": field, "prog": i}
        if old is not None:
            model = old["model"]
        elif mk == "none" or not op.get("model", True):
            model = None
        else:
            model = getattr(mod, pn + "_model")()
            model.__dict__["_sim_tag"] = tag
            model.__dict__["_sim_role"] = "model"
        ent["model"] = model
        ls = []
        for role in op.get("listeners", []):
            o = ent["listeners"].get(role)
            if o is None:
                lcls = getattr(mod, pn + "_" + role.split("#")[0])
                o = lcls(tag) if getattr(lcls, "_sim_takes_tag", False) else lcls()
                o._sim_tag = tag
                o._sim_role = role
                ent["listeners"][role] = o
            ls.append(o)
        if op.get("shared_probe"):
            from .simrt import SimSharedProbe

            ent["probe"] = SimSharedProbe()
            ls.append(ent["probe"])
        SIM.models[tag] = model
        SIM.fields[tag] = field
        SIM.machines.pop(tag, None)
        self.objs[tag] = ent
        kw = {}
        if field != "state":
            kw["state_field"] = field
        if op.get("start_value") is not None:
            kw["start_value"] = dec(op["start_value"])
        if not op.get("rtc", True):
            kw["rtc"] = False
        if op.get("allow"):
            kw["allow_event_without_transition"] = True
        if ls:
            kw["listeners"] = ls
        SIM.constructing = tag
        SIM.tl.constructing = tag
        ent.pop("sm", None)
        try:
            if op.get("mixin"):
                model = getattr(mod, pn + "_model")()
                sm = model.statemachine
                ent["model"] = model
                ent["mixin"] = True
                model.__dict__["_sim_tag"] = tag
                model.__dict__["_sim_role"] = "model"
                SIM.models[tag] = model
            else:
                sm = cls(model, **kw) if model is not None else cls(**kw)
        finally:
            SIM.constructing = None
            SIM.tl.constructing = None
        if op.get("bind"):
            class _Target:
                pass

            ent["target"] = _Target()
            with warnings.catch_warnings():
                warnings.simplefilter("ignore")
                if op.get("bind_conflict"):
                    # several targets in one call; an EARLIER one already owns an attribute named like one
                    # of the events (skipped there with a warning): the later target still gets every trigger
                    busy = _Target()
                    setattr(busy, op["bind_conflict"], "taken")
                    sm.bind_events_to(busy, ent["target"])
                else:
                    sm.bind_events_to(ent["target"])
        if op.get("custom_attr"):
            sm.custom_attr = {"n": [tag, 1]}
            sm._custom_private = ["private", tag]  # user subclasses keep their own state in such attributes
        if op.get("model_holds_machine") and ent.get("model") is not None:
            ent["model"].owner_sm = sm
        if op.get("bind_model") and ent.get("model") is not None:
            with warnings.catch_warnings():
                warnings.simplefilter("ignore")
                sm.bind_events_to(ent["model"])
            ent["bound_model"] = True
        sm._sim_tag = tag
        sm._sim_role = "machine"
        if model is None:
            m = sm.model
            m._sim_tag = tag
            m._sim_role = "model"
            SIM.models[tag] = m
        ent["sm"] = sm
        SIM.machines[tag] = sm
        return None

    def _trigger(self, sm, op):
        ev = op["event"]
        args = [dec(a) for a in (op.get("args") or [])]
        kw = dec(op.get("kwargs") or {})
        style = op.get("style", "send")
        if style == "send":
            return sm.send(ev, *args, **kw)
        if style == "call":
            return getattr(sm, ev)(*args, **kw)
        if style == "events":
            for e in sm.events:
                if e.id == ev:
                    return e(*args, **kw)
            raise HarnessError(f"{ev} not in sm.events")
        if style == "allowed":
            for e in sm.allowed_events:
                if e.id == ev:
                    return e(*args, **kw)
            raise HarnessError(f"{ev} not in sm.allowed_events")
        if style == "foreign_bound":
            # the event is named by a BoundEvent (a ``str``) that belongs to ANOTHER machine -- e.g. an
            # ``event`` value journalled by a listener and replayed: send() addresses the machine it is
            # called on, by name
            return sm.send(getattr(self._helper_machine(ev), ev), *args, **kw)
        raise HarnessError(f"unknown style {style}")

    def _helper_machine(self, ev):
        """An unrelated machine (no callbacks, own model) that declares an event of the given name."""
        h = self._helpers.get(ev) if hasattr(self, "_helpers") else None
        if h is None:
            from statemachine import State
            from statemachine import StateMachine

            h0 = State(initial=True)
            h1 = State()
            attrs = {"h0": h0, "h1": h1, ev: h0.to(h1) | h1.to(h0)}
            cls = type("SimHelperMachine", (StateMachine,), attrs)
            h = cls()
            if not hasattr(self, "_helpers"):
                self._helpers = {}
            self._helpers[ev] = h
        return h

    def do_noop(self, op):
        return None

    def do_attach_probe(self, op):
        """Attach the very listener OBJECT that instance ``from`` got at construction to this instance
        (the same audit log shared by the original and its copy)."""
        ent = self.objs[op["inst"]]
        probe = self.objs[op["from"]].get("probe")
        if probe is None:
            return None
        ent["sm"].add_listener(probe)
        ent["probe_src"] = op["from"]
        return None

    def do_setopt(self, op):
        self.objs[op["inst"]]["sm"].allow_event_without_transition = bool(op["allow"])
        return None

    def do_drop(self, op):
        """Forget an instance (machine, model, listeners) and let it be collected."""
        tag = op["inst"]
        self.objs.pop(tag, None)
        SIM.machines.pop(tag, None)
        SIM.models.pop(tag, None)
        gc.collect()
        return None

    def do_bind_foreign(self, op):
        """Bind another machine's event triggers onto this machine object (bind_events_to accepts any
        target); they are not events of this machine."""
        src = self.objs[op["from"]]["sm"]
        ent = self.objs[op["inst"]]
        with warnings.catch_warnings():
            warnings.simplefilter("ignore")
            src.bind_events_to(ent["sm"])
        ent["foreign"] = op["from"]
        return None

    def snapshot(self, tag):
        ent = self.objs[tag]
        sm = ent["sm"]
        mo = ent.get("model") if ent.get("model") is not None else sm.model
        from statemachine import registry

        snap = {
            "dict_keys": sorted(k for k in sm.__dict__ if k != "_states_for_instance"),
            "model_is": id(sm.model),
            "field": enc(getattr(mo, ent["field"], None)),
            "listeners": [id(x) for x in getattr(sm, "_listeners", {})],
            "allow": sm.allow_event_without_transition,
            "state_field": sm.state_field,
            "start_value": enc(sm.start_value),
            "class_attrs": sorted(vars(type(sm))),
            "cb_records": sum(1 for r in SIM.trace if r["k"] == "cb+"),
            "user_attributes_evaluated": sum(1 for r in SIM.trace if r["k"] == "probe"),
            "foreign_machine_state": (enc(self.objs[ent["foreign"]]["sm"].current_state_value)
                                      if ent.get("foreign") in self.objs and "sm" in self.objs.get(ent.get("foreign"), {})
                                      else None),
            "registry": len(registry._REGISTRY),
            "model_keys": sorted(getattr(mo, "__dict__", {})),
        }
        return snap

    def do_send(self, op):
        ent = self.objs[op["inst"]]
        sm = ent["sm"]
        if op.get("garbage"):
            before = self.snapshot(op["inst"])
            try:
                return self._trigger(sm, op)
            finally:
                after = self.snapshot(op["inst"])
                diff = sorted(k for k in before if before[k] != after[k])
                if before["field"] is None:
                    # a not-yet-activated (async) machine is activated by its first send, whatever it
                    # is: the field is written and the initial state's enter callbacks run
                    diff = [k for k in diff if k not in ("field", "cb_records")]
                SIM.rec(k="snap", n=SIM.epoch, name=op["event"], same=not diff, diff=diff)
        style = op.get("style", "send")
        if style == "bound" and ent.get("target") is not None:
            args = [dec(a) for a in (op.get("args") or [])]
            return getattr(ent["target"], op["event"])(*args, **dec(op.get("kwargs") or {}))
        if style == "mbound" and ent.get("model") is not None and hasattr(ent["model"], op["event"]):
            args = [dec(a) for a in (op.get("args") or [])]
            return getattr(ent["model"], op["event"])(*args, **dec(op.get("kwargs") or {}))
        if style == "mixin" and ent.get("mixin"):
            args = [dec(a) for a in (op.get("args") or [])]
            return getattr(ent["model"], op["event"])(*args, **dec(op.get("kwargs") or {}))
        if style == "allowed":
            try:
                names = [e.id for e in sm.allowed_events]
            except Exception:
                names = []  # async machine not activated yet: there is no current state to ask
            if op["event"] not in names:
                SIM.stats["style_fallback"] = SIM.stats.get("style_fallback", 0) + 1
                op = dict(op, style="send")
        if style in ("bound", "mixin", "mbound"):
            op = dict(op, style="send")
        return self._trigger(sm, op)

    def do_activate(self, op):
        sm = self.objs[op["inst"]]["sm"]
        return sm.activate_initial_state()

    def do_activate2(self, op):
        sm = self.objs[op["inst"]]["sm"]
        return asyncio.gather(sm.activate_initial_state(), sm.activate_initial_state())

    def do_send2(self, op):
        sm = self.objs[op["inst"]]["sm"]
        a = self._trigger(sm, op["a"])
        b = self._trigger(sm, op["b"])
        return asyncio.gather(a, b)

    def do_add_listener(self, op):
        ent = self.objs[op["inst"]]
        p = self.sc["programs"][ent["prog"]]
        mod = self.mods[ent["prog"]]
        ls = []
        for role in op["listeners"]:
            o = ent["listeners"].get(role)
            if o is None:
                lcls = getattr(mod, render.pyname(p) + "_" + role.split("#")[0])
                o = lcls(ent.get("tag_as", op["inst"])) if getattr(lcls, "_sim_takes_tag", False) else lcls()
                o._sim_tag = ent.get("tag_as", op["inst"])
                o._sim_role = role
                ent["listeners"][role] = o
            ls.append(o)
        if op.get("via") == "observer":
            # the deprecated alias of add_listener()
            with warnings.catch_warnings():
                warnings.simplefilter("ignore")
                ent["sm"].add_observer(*ls)
        else:
            ent["sm"].add_listener(*ls)
        return None

    def do_write(self, op):
        ent = self.objs[op["inst"]]
        sm = ent["sm"]
        how = op["how"]
        v = dec(op["value"])
        if how == "model":
            setattr(sm.model, ent["field"], v)
        elif how == "csv":
            sm.current_state_value = v
        elif how == "cs":
            sm.current_state = getattr(sm, op["state_id"])
        elif how == "csobj":
            # a State object that does not belong to this machine (another class's, a free-standing
            # one): what counts is whether its value is one this machine maps
            from statemachine import State

            sm.current_state = State("foreign", value=v)
        else:
            raise HarnessError(f"unknown write {how}")
        return None

    def do_clone(self, op):
        import copy
        import pickle

        ent = self.objs[op["inst"]]
        sm = ent["sm"]
        tag = op["as"]
        if op["how"] == "copy":
            # a shallow copy: a second machine over the SAME model and the same listener objects
            c = copy.copy(sm)
            c.__dict__["_sim_tag"] = tag
            self.objs[tag] = {"sm": c, "model": ent.get("model"), "field": ent["field"], "prog": ent["prog"],
                              "listeners": ent["listeners"], "tag_as": ent.get("tag_as", op["inst"])}
            SIM.machines[tag] = c
            SIM.models[tag] = c.model
            SIM.fields[tag] = ent["field"]
            SIM.rec(k="clone", i=op["inst"], to=tag, info={"shallow": True, "model_shared": c.model is sm.model})
            return None
        if op.get("via_model") and ent.get("model") is not None and getattr(ent["model"], "owner_sm", None) is sm:
            # the machine is reached through its own model (model.owner_sm <-> sm.model): copy the model
            m2 = copy.deepcopy(ent["model"]) if op["how"] == "deepcopy" else pickle.loads(pickle.dumps(ent["model"]))
            c = m2.owner_sm
        elif op["how"] == "deepcopy":
            c = copy.deepcopy(sm)
        else:
            c = pickle.loads(pickle.dumps(sm))
        info = {"model_shared": c.model is sm.model,
                "listeners_shared": [r for r, o in ent["listeners"].items()
                                     if any(o is x for x in getattr(c, "_listeners", {}))],
                "listener_classes": sorted(type(x).__name__ for x in getattr(c, "_listeners", {})),
                "orig_listener_classes": sorted(type(x).__name__ for x in getattr(sm, "_listeners", {})),
                "options": {"allow": c.allow_event_without_transition, "state_field": c.state_field,
                            "start_value": enc(c.start_value)},
                "orig_options": {"allow": sm.allow_event_without_transition, "state_field": sm.state_field,
                                 "start_value": enc(sm.start_value)},
                "extra_attr": getattr(c, "custom_attr", None) == getattr(sm, "custom_attr", None)
                and getattr(c, "_custom_private", None) == getattr(sm, "_custom_private", None)}
        SIM.rec(k="clone", i=op["inst"], to=tag, info=info)
        self._register_clone(ent, sm, c, tag, info)
        return None

    def snapshot_from_callback(self, src_tag, spec):
        """Called from inside a callback (rule ``snapshot``): the MODEL -- which holds its machine -- is
        copied right now, in the middle of the event that is being processed (an undo history that
        snapshots on every state entry)."""
        import copy
        import pickle

        ent = self.objs.get(src_tag)
        if not ent or ent.get("model") is None or getattr(ent["model"], "owner_sm", None) is None:
            return
        sm = ent["model"].owner_sm
        m2 = copy.deepcopy(ent["model"]) if spec.get("how") == "deepcopy" else pickle.loads(pickle.dumps(ent["model"]))
        c = m2.owner_sm
        SIM.rec(k="clone", i=src_tag, to=spec["as"], info={"model_shared": False, "from_callback": True})
        self._register_clone(ent, sm, c, spec["as"], {"model_shared": False})
        SIM.stats["snapshots_from_callbacks"] = SIM.stats.get("snapshots_from_callbacks", 0) + 1

    def _register_clone(self, ent, sm, c, tag, info):
        ent2 = {"sm": c, "model": c.model, "field": ent["field"], "prog": ent["prog"], "listeners": {}}
        if not info["model_shared"]:
            try:
                c.model.__dict__["_sim_tag"] = tag
            except Exception:
                pass
        for x in getattr(c, "_listeners", {}):
            if type(x).__name__ == "SimSharedProbe":
                ent2["probe"] = x
            role = getattr(x, "_sim_role", None)
            if role is not None and not any(x is o for o in ent["listeners"].values()):
                x._sim_tag = tag
                ent2["listeners"][role] = x
        if c is not sm:
            c.__dict__["_sim_tag"] = tag
        self.objs[tag] = ent2
        SIM.machines[tag] = c
        SIM.models[tag] = c.model
        SIM.fields[tag] = ent["field"]
        return None

    def do_define(self, op):
        self.load(op["prog"])
        return None

    # ------------------------------------------------------------------ observation
    def observe(self, tag):
        ent = self.objs.get(tag)
        if not ent or "sm" not in ent:
            return {"absent": True}
        sm = ent["sm"]
        o = {}
        try:
            o["csv"] = enc(sm.current_state_value)
        except Exception as e:
            o["csv_err"] = type(e).__name__
        try:
            o["cs"] = sm.current_state.id
        except Exception as e:
            o["cs_err"] = type(e).__name__
        try:
            # the USER's model object is what is observed (C10: "the model object supplied by the
            # user is the one used"); the library's default Model only when none was supplied
            mo = ent.get("model") if ent.get("model") is not None else sm.model
            o["field"] = enc(getattr(mo, ent["field"], None))
        except Exception as e:
            o["field_err"] = type(e).__name__
        try:
            o["allowed"] = [e.id for e in sm.allowed_events]
        except Exception as e:
            o["allowed_err"] = type(e).__name__
        src = ent.get("probe_src")
        if src is not None and self.objs.get(src, {}).get("probe") is not None:
            o["probe_heard"] = sum(1 for t in self.objs[src]["probe"].heard if t == tag)
        if self.sc.get("observe_more"):
            try:
                o["events"] = sorted(e.id for e in sm.events)
            except Exception as e:
                o["events_err"] = type(e).__name__
            act = []
            p = self.sc["programs"][ent["prog"]]
            for s_ in p["states"]:
                try:
                    if getattr(sm, s_["id"]).is_active:
                        act.append(s_["id"])
                except Exception as e:
                    act.append(f"{s_['id']}!{type(e).__name__}")
            o["active"] = act
            if ent.get("model") is not None:
                o["model_is"] = sm.model is ent["model"]
        return o

    # ------------------------------------------------------------------ driver
    def _outcome(self, fn, op):
        try:
            r = fn(op)
            return r, None
        except (SimDeadlock, SimStepCap, HarnessError):
            raise
        except (Exception, SimBaseFault) as e:
            return None, e

    def _absent(self, n, op):
        """An op addressed to an instance whose construction failed is skipped (by the reference too)."""
        if op["op"] in ("new", "define", "drop") or op.get("inst") is None:
            return False
        ent = self.objs.get(op["inst"])
        if ent and "sm" in ent:
            return False
        SIM.epoch = n
        SIM.rec(k="op+", n=n, op=op["op"], i=op.get("inst"))
        out = {"n": n, "res": None, "exc": None, "skipped": True, "obs": {"absent": True}}
        SIM.rec(k="op-", n=n, out=out)
        self.outs.append(out)
        return True

    def step_sync(self, n, op):
        if self._absent(n, op):
            return
        SIM.epoch = n
        if getattr(SIM.tl, "own_epoch", False):
            SIM.tl.epoch = n
        SIM.rec(k="op+", n=n, op=op["op"], i=op.get("inst"))
        fn = getattr(self, "do_" + op["op"])
        r, e = self._outcome(fn, op)
        if e is None and asyncio.iscoroutine(r):
            # no loop is running in this thread: the library must have run the coroutine itself; a
            # coroutine object handed back to synchronous code is a (wrong) result, not a harness failure
            r.close()
            r = "<coroutine object returned to a synchronous caller>"
        self._finish(n, op, r, e)

    async def step_async(self, n, op):
        if self._absent(n, op):
            return
        SIM.epoch = n
        SIM.rec(k="op+", n=n, op=op["op"], i=op.get("inst"))
        fn = getattr(self, "do_" + op["op"])
        r, e = self._outcome(fn, op)
        if e is None and (asyncio.iscoroutine(r) or isinstance(r, asyncio.Future)):
            try:
                if op.get("timeout") is not None:
                    r = await asyncio.wait_for(r, timeout=op["timeout"])
                else:
                    r = await r
            except (SimDeadlock, SimStepCap, HarnessError):
                raise
            except (Exception, SimBaseFault) as ex:
                r, e = None, ex
        self._finish(n, op, r, e)

    def _finish(self, n, op, r, e):
        out = {"n": n, "res": enc(r) if e is None else None,
               "exc": SIM._describe_exc(e) if e is not None else None}
        if op.get("inst") is not None:
            out["obs"] = self.observe(op["inst"])
        SIM.rec(k="op-", n=n, out=out)
        self.outs.append(out)

    def run_ops(self):
        ops = self.sc["ops"]
        driver = self.sc.get("driver", "sync")
        if driver == "sync":
            for n, op in enumerate(ops):
                self.step_sync(n, op)
        elif driver == "inloop":
            loop = vloop.SimLoop()

            async def main():
                for n, op in enumerate(ops):
                    await self.step_async(n, op)

            try:
                loop.run_until_complete(main())
            finally:
                SIM.stats["vtime"] = loop.time()
                SIM.stats["loop_steps"] = loop.steps
        elif driver == "threads_in_turn":
            for n, op in enumerate(ops):
                box = {}

                def work(n=n, op=op):
                    try:
                        self.step_sync(n, op)
                    except BaseException as ex:  # harness errors cross the thread boundary
                        box["e"] = ex

                th = threading.Thread(target=work, name=f"turn-{n % 3}")
                th.start()
                th.join()
                if "e" in box:
                    raise box["e"]
        else:
            raise HarnessError(f"unknown driver {driver}")


def isolated(fn, *args):
    """Run ``fn(*args)`` in a forked child and return its (pickled) result.

    Every execution of a scenario starts from the same pristine process image (library imported,
    nothing defined, nothing cached), whatever earlier executions did to process-global state: the
    caches the harness knows how to clear, and any it does not know about (e.g. a module-level
    container introduced by a change to the library).  This is what makes 'one seed = one exactly
    repeatable execution' hold across workers, replays and minimisation."""
    import pickle
    import traceback

    if os.environ.get("VERIF_NO_FORK"):
        return fn(*args)
    lib()
    if not _lib.get("frozen"):
        # objects that exist now never need collecting in the children: keeps their gc.collect() from
        # touching (and so copying) the parent's whole heap
        gc.collect()
        gc.freeze()
        _lib["frozen"] = True
    r, w = os.pipe()
    pid = os.fork()
    if pid == 0:
        code = 0
        try:
            os.close(r)
            try:
                # (faulthandler's watchdog is not fork-safe: re-arming it in a child whose parent had
                # one armed deadlocks; SIGALRM's default action ends a hung child instead)
                import signal

                signal.signal(signal.SIGALRM, signal.SIG_DFL)
                signal.alarm(100)
                out = ("ok", fn(*args))
            except BaseException as e:  # noqa: B036 - reported to the parent
                out = ("err", type(e).__name__, f"{type(e).__name__}: {e}", traceback.format_exc()[-1500:])
            try:
                data = pickle.dumps(out)
            except Exception as e:
                data = pickle.dumps(("err", "PickleError", str(e), ""))
            with os.fdopen(w, "wb") as f:
                f.write(data)
        except BaseException:
            code = 3
        finally:
            os._exit(code)
    os.close(w)
    import select
    import time as _time

    chunks = []
    t0 = _time.time()
    with os.fdopen(r, "rb", buffering=0) as f:
        while True:
            left = 130.0 - (_time.time() - t0)
            if left <= 0:
                try:
                    os.kill(pid, 9)
                except OSError:
                    pass
                break
            rd, _, _ = select.select([f], [], [], left)
            if not rd:
                continue
            b = f.read(1 << 20)
            if not b:
                break
            chunks.append(b)
    data = b"".join(chunks)
    _pid, status = os.waitpid(pid, 0)
    if not data:
        raise HarnessError(f"isolated execution died (wait status {status})")
    out = pickle.loads(data)
    if out[0] == "ok":
        return out[1]
    if out[1] == "SimDeadlock":
        raise SimDeadlock(out[2])
    if out[1] == "SimStepCap":
        raise SimStepCap(out[2])
    raise HarnessError(out[2] + "\n" + out[3])


def execute(scenario, runner_cls=Runner):
    """Run one scenario in a pristine forked process; returns {"trace","outs","warnings","stats","digest"}."""
    return isolated(_execute, scenario, runner_cls)


def _execute(scenario, runner_cls=Runner):
    r = runner_cls(scenario)
    caught = []
    with warnings.catch_warnings(record=True) as wl:
        warnings.simplefilter("always")
        try:
            r.setup()
            r.run_ops()
            vt = 0.0
            steps = 0
            for lp in vloop.ALL_LOOPS:
                vt += lp.time()
                steps += lp.steps
            SIM.stats["vtime"] = vt
            SIM.stats["loop_steps"] = steps
            SIM.stats["perms"] = vloop._perm_state["perms"]
        finally:
            trace = list(SIM.trace)
            stats = dict(SIM.stats)
            gc.collect()
            r.teardown()
            gc.collect()
        for w in wl:
            caught.append([w.category.__name__, str(w.message)])
    never = sorted({m for c, m in caught if "never awaited" in m})
    return {"trace": trace, "outs": r.outs, "warnings": caught, "never_awaited": never,
            "stats": stats, "digest": digest(trace)}
