"""Compare the trace of a real execution with the reference model's prediction.

Produces *generic findings* ({"kind", "op", "detail"}); each campaign maps the kinds it has armed
to clauses of its own property and ignores the rest (DESIGN §2.9).

Relaxations (DESIGN §4): order inside one group is never constrained; how many guards run is not
constrained (only that a guard begins inside its candidate's selection window); in a failing group
instance the siblings of the raising callback are optional.
"""

import json

from .ref import Ref
from .ref import vkey

BUILTINS = ("event_data", "machine", "event", "model", "transition", "state", "source", "target")


def canon(v):
    return json.dumps(v, sort_keys=True)


def split_ops(trace):
    """op index -> list of records strictly inside op+ .. op-."""
    segs = {}
    cur = None
    for r in trace:
        k = r["k"]
        if k == "op+":
            cur = r["n"]
            segs[cur] = []
        elif k == "op-":
            cur = None
        elif cur is not None:
            segs[cur].append(r)
    return segs


class Matcher:
    def __init__(self, scenario, result, coarse=False):
        self.coarse = coarse
        self.binder = None
        self.exp_by_op = {}
        self.sc = scenario
        self.res = result
        self.ref = Ref(scenario)
        self.findings = []
        self.dead = set()
        self.stats = {"ops": 0, "execs": 0, "items": 0, "cb_matched": 0, "guards_seen": 0,
                      "multi_candidate_ops": 0, "tna": 0, "failing_groups": 0, "nested_execs": 0,
                      "initial_execs": 0, "internal": 0, "queued_execs": 0}

    def add(self, kind, n, **detail):
        self.findings.append({"kind": kind, "op": n, "detail": detail})

    # ------------------------------------------------------------------ top level
    def run(self, stop_at_first=True):
        segs = split_ops(self.res["trace"])
        outs = {o["n"]: o for o in self.res["outs"]}
        for n, op in enumerate(self.sc["ops"]):
            fn = getattr(self.ref, "op_" + op["op"], None)
            if fn is None:
                continue
            out = outs.get(n)
            if out is None:
                self.add("harness.missing_op", n)
                break
            if out.get("skipped"):
                if op.get("inst") not in self.dead:
                    self.add("harness.skipped_live", n)
                    break
                if op["op"] == "clone":
                    self.dead.add(op["as"])
                continue
            if op.get("inst") in self.dead and op["op"] != "new":
                self.add("op_exc", n, expected="construction failed", actual="machine exists")
                break
            if op.get("timeout") is not None and (out.get("exc") or {}).get("cls") == "TimeoutError":
                self.resync_after_cancel(n, op, out, segs.get(n, []))
                if self.findings and stop_at_first:
                    break
                continue
            exp = fn(op, n)
            self.exp_by_op[n] = exp
            if op["op"] == "new":
                if exp.get("exc") is not None:
                    self.dead.add(op["inst"])
                else:
                    self.dead.discard(op["inst"])
            self.stats["ops"] += 1
            self.check_op(n, op, exp, out, segs.get(n, []))
            if self.findings and stop_at_first:
                break
        return self.findings

    def resync_after_cancel(self, n, op, out, seg):
        """The operation was cancelled at a virtual time (wait_for).  The expected state is the state
        the cancelled callback saw when it began; the queue must be empty and the machine usable."""
        tag = op["inst"]
        inst = self.ref.insts[tag]
        rp = inst.rp
        begins = {r["q"]: r for r in seg if r["k"] == "cb+" and r["i"] == tag}
        seen = []
        for r in seg:
            if r["k"] == "cb-" and r["out"][0] == "exc" and r["out"][1].get("cls") == "CancelledError":
                b = begins.get(r["r"])
                if b is not None:
                    seen.append(rp.id_of_value.get(vkey(b["sv"])))
        obs = out.get("obs") or {}
        exp_state = seen[0] if seen and all(x == seen[0] for x in seen) else obs.get("cs")
        self.exp_by_op[n] = {"exc": {"cls": "TimeoutError"}, "execs": [], "cancelled": True,
                             "state": exp_state}
        if exp_state is not None and obs.get("cs") != exp_state:
            self.add("op_state", n, expected=exp_state, actual=obs.get("cs", obs.get("cs_err")),
                     after="cancellation")
        inst.state = exp_state if exp_state is not None else inst.state
        del inst.queue[:]
        inst.processing = False
        self.stats["cancelled_ops"] = self.stats.get("cancelled_ops", 0) + 1

    def check_op(self, n, op, exp, out, seg):
        tag = op.get("inst")
        inst = self.ref.insts.get(tag)
        rp = inst.rp if inst is not None else None
        # ---- exception
        ee, ae = exp.get("exc"), out.get("exc")
        if not self.same_exc(ee, ae):
            self.add("op_exc", n, expected=ee, actual=ae)
        if ee and ee.get("cls") == "TransitionNotAllowed":
            self.stats["tna"] += 1
        # ---- state
        obs = out.get("obs") or {}
        allowed_f = None
        if ee and ee.get("cls") == "SimStorageError" and inst is not None and not obs.get("absent"):
            # after a storage error only consistency is demanded: the machine's view equals whatever
            # the model now holds; the reference is re-synchronised from the stored value
            fld = obs.get("field")
            sid = rp.id_of_value.get(vkey(fld)) if fld is not None else None
            if fld is None:
                inst.state = None
            elif sid is None:
                inst.state = {"$invalid": fld}
            else:
                inst.state = sid
                if obs.get("cs") != sid:
                    self.add("view_vs_model", n, field=fld, current_state=obs.get("cs", obs.get("cs_err")))
            del inst.queue[:]
            self.stats["storage_faults"] = self.stats.get("storage_faults", 0) + 1
        elif rp is not None and not obs.get("absent"):
            es = exp.get("state")
            if isinstance(es, dict):
                if obs.get("cs_err") != "InvalidStateValue":
                    self.add("op_state", n, expected="InvalidStateValue", actual=obs.get("cs"))
                if canon(obs.get("field")) != canon(_encv(es.get("$invalid"))):
                    self.add("model_field", n, expected=es.get("$invalid"), actual=obs.get("field"))
            elif es is None:
                if obs.get("csv") is not None:
                    self.add("op_state", n, expected=None, actual=obs.get("csv"))
            else:
                if obs.get("cs") != es:
                    self.add("op_state", n, expected=es, actual=obs.get("cs", obs.get("cs_err")))
                if canon(obs.get("field")) != canon(_encv(rp.value_of[es])):
                    self.add("model_field", n, expected=rp.value_of[es], actual=obs.get("field"))
                ea = rp.allowed(es)
                # (each allowed event exactly once; the ORDER of allowed_events is not specified)
                if not isinstance(obs.get("allowed"), list) or sorted(obs["allowed"]) != sorted(ea):
                    allowed_f = dict(expected=ea, actual=obs.get("allowed", obs.get("allowed_err")))
        # ---- callback sequence
        if inst is not None:
            self.check_sequence(n, tag, inst, exp, seg)
        # ---- result (only meaningful when the right callbacks ran)
        if op["op"] == "send" and ee is None and ae is None:
            self.check_result(n, exp, out)
        if allowed_f is not None:
            self.add("allowed", n, **allowed_f)

    # ------------------------------------------------------------------ pieces
    @staticmethod
    def same_exc(ee, ae):
        if ee is None or ae is None:
            return ee is None and ae is None
        if ee.get("cls") != ae.get("cls"):
            return False
        if "sim_id" in ee:
            return ee["sim_id"] == ae.get("sim_id")
        if "sim_cb" in ee:
            return (ae.get("sim_id") or [None])[0] == ee["sim_cb"]
        if ee["cls"] == "TransitionNotAllowed":
            return ee.get("event") == ae.get("event") and ee.get("state") == ae.get("state")
        return True

    def check_result(self, n, exp, out):
        first = None
        for ex in exp["execs"]:
            if not ex.get("initial"):
                first = ex
                break
        actual = out.get("res")
        if first is None or first.get("vals") is None:
            if actual is not None:
                self.add("op_result", n, expected=None, actual=actual)
            return
        vals, nb = first["vals"], first["nb"]
        evals = [_encv(v) for v in vals]
        if len(evals) == 0:
            ok = actual is None
        elif len(evals) == 1:
            ok = canon(actual) == canon(evals[0])
        else:
            ok = (
                isinstance(actual, list)
                and len(actual) == len(evals)
                and sorted(canon(x) for x in actual[:nb]) == sorted(canon(x) for x in evals[:nb])
                and sorted(canon(x) for x in actual[nb:]) == sorted(canon(x) for x in evals[nb:])
            )
        if not ok:
            self.add("op_result", n, expected=evals, nb=nb, actual=actual)

    def check_sequence(self, n, tag, inst, exp, seg):
        xtags = set()

        def _collect(execs):
            for ex in execs:
                for it in ex["items"]:
                    for m_ in it["members"]:
                        for xn in m_.get("xnested") or []:
                            xtags.add(xn["inst"])
                            _collect(xn["execs"])
                        _collect(m_.get("nested") or [])

        _collect(exp["execs"])
        def _prop_read(r):
            # a guard given as a property is READ when names are resolved (construction, add_listener,
            # copy); the record carries the tag of the object that owns the property, which for a
            # listener shared with a shallow copy is the original's
            for rp_ in self.ref.progs:
                if r["c"].startswith(rp_.name + "/"):
                    return bool((rp_.prog["cbs"].get(r["c"].split("/", 1)[1]) or {}).get("prop"))
            return False

        stray = [r for r in seg if r["k"] == "cb+" and r["i"] != tag and r["e"] == n and r["i"] not in xtags
                 and not _prop_read(r)]
        if stray:
            self.add("cross_instance", n, op_inst=tag, cb=stray[0]["c"], other=stray[0]["i"])
        cbs = [r for r in seg if r["k"] == "cb+" and r["i"] == tag]
        ends = {r["r"]: r for r in seg if r["k"] == "cb-"}
        ns = {}
        nsend = {r["r"]: r for r in seg if r["k"] == "ns-"}
        for r in seg:
            if r["k"] == "ns+":
                ns.setdefault(r["r"], []).append(r)
        qs = {r["q"] for r in cbs}
        top = [r for r in cbs if r.get("p") is None or r["p"] not in qs]
        kids = {}
        for r in cbs:
            if r.get("p") in qs:
                kids.setdefault(r["p"], []).append(r)
        ctx = {"n": n, "tag": tag, "inst": inst, "ends": ends, "ns": ns, "nsend": nsend, "kids": kids,
               "seg": seg}
        self.walk(ctx, top, exp["execs"], level=0)
        # stray records of other instances inside this op are judged by the campaigns that care
        self.stats["execs"] += len(exp["execs"])
        for i, ex in enumerate(exp["execs"]):
            if ex.get("initial"):
                self.stats["initial_execs"] += 1
            elif i > 0:
                self.stats["queued_execs"] += 1

    def walk(self, ctx, records, execs, level):
        n = ctx["n"]
        inst = ctx["inst"]
        rp = inst.rp
        items = []
        for xi, ex in enumerate(execs):
            cands = 0
            src_items = ex["items"]
            if self.coarse and src_items:
                # one item per event execution: order *inside* a transition is not this check's business
                merged = dict(src_items[0])
                merged["g"] = "event"
                merged["members"] = []
                merged["failing"] = any(it.get("failing") for it in src_items)
                for it in src_items:
                    for m in it["members"]:
                        m = dict(m)
                        if it["g"] == "guards":
                            m["optional"] = True
                        merged["members"].append(m)
                src_items = [merged]
            for it in src_items:
                src_it = it
                it = dict(it)
                it["_src"] = src_it
                it["_x"] = xi
                it["_left"] = {}
                for m in it["members"]:
                    it["_left"].setdefault(m["c"], []).append(m)
                it["_got"] = []
                items.append(it)
                if it["g"] == "guards":
                    cands += 1
            if cands > 1:
                self.stats["multi_candidate_ops"] += 1
        self.stats["items"] += len(items)
        p = 0
        for r in records:
            short = r["c"].split("/", 1)[1]
            q = p
            placed = None
            alts = []
            while q < len(items):
                it = items[q]
                left = it["_left"].get(short)
                if left:
                    if it["g"] != "guards":
                        if not alts:
                            alts.append(q)
                        break
                    alts.append(q)
                if not self.satisfied(it):
                    break
                q += 1
            if alts:
                # a guard shared by consecutive candidates: attribute the record to the first
                # window whose transition it describes (the sync engine may have short-circuited
                # the earlier candidate before reaching this guard)
                q = alts[0]
                if len(alts) > 1:
                    for a in alts:
                        if self.bound_ok(ctx, r, items[a]):
                            q = a
                            break
                placed = items[q]
            if placed is None and (rp.prog["cbs"].get(short) or {}).get("prop"):
                # a guard given as a property is also READ (not called) when names are resolved - at
                # construction, add_listener, copy: a pure read outside any event
                self.stats["property_guard_reads_outside_events"] = \
                    self.stats.get("property_guard_reads_outside_events", 0) + 1
                continue
            if placed is None:
                cur = items[min(p, len(items) - 1)] if items else None
                self.add("seq.extra", n, cb=r["c"], group=r.get("g"), j=r["j"], level=level,
                         at_group=(cur["g"] if cur else None), at_event=(cur["ev"] if cur else None),
                         at_exec=(cur["_x"] if cur else None))
                return
            p = q
            mem = placed["_left"][short].pop(0)
            placed["_got"].append((r, mem))
            self.stats["cb_matched"] += 1
            if placed["g"] == "guards":
                self.stats["guards_seen"] += 1
                if self.binder is not None:
                    self.binder(self, ctx, r, placed)
                else:
                    self.check_bound(ctx, r, placed, guard=True)
                continue
            if self.binder is not None:
                self.binder(self, ctx, r, placed)
            elif self.coarse:
                b = r["b"]
                if "event" in b and canon(b["event"]) != canon({"$e": placed["ev"]}):
                    self.add("bound.event", n, cb=r["c"], expected=placed["ev"], actual=b["event"])
            else:
                self.check_bound(ctx, r, placed)
            self.check_member(ctx, r, mem, placed, level)
        for it in items:
            if it["g"] == "guards":
                # (exposed for clauses about the order of guard evaluation inside one candidate)
                it["_src"]["_seen"] = [r["c"] for r, _m in sorted(it["_got"], key=lambda x: x[0]["q"])]
        for it in items[p:]:
            if not self.satisfied(it):
                miss = [c for c, l in it["_left"].items() for m in l if not m.get("optional")]
                self.add("seq.missing", n, group=it["g"], event=it["ev"], cbs=miss, level=level,
                         exec=it["_x"])
                return
        if self.coarse:
            # every callback of event k has ended before the first callback of event k+1 begins
            prev = None
            for it in items:
                if not it["_got"]:
                    continue
                fb = min(r["q"] for r, _ in it["_got"])
                if prev is not None and not prev.get("failing"):
                    self._barrier(ctx, prev, fb, it)
                prev = it
            return
        # guards: a started guard is awaited to completion before the next phase begins (C05)
        for gi, it in enumerate(items):
            if it["g"] != "guards" or not it["_got"]:
                continue
            nxt = None
            for it2 in items[gi + 1:]:
                if it2["_got"]:
                    nxt = min(r["q"] for r, _ in it2["_got"])
                    break
            for r, _m in it["_got"]:
                e = ctx["ends"].get(r["q"])
                if e is None or (nxt is not None and e["q"] > nxt):
                    self.add("guard_barrier", n, cb=r["c"], ended=(e["q"] if e else None),
                             next_began=nxt, event=it["ev"])
                    break
        # everything that was started has ended when the operation returns (fault-free operations)
        if level == 0 and not any(it.get("failing") for it in items):
            for it in items:
                for r, _m in it["_got"]:
                    if r.get("g") in ("cond", "unless"):
                        continue
                    if ctx["ends"].get(r["q"]) is None:
                        self.add("unfinished", n, cb=r["c"], group=it["g"])
                        break
        # barrier: every end of group k precedes every begin of the next non-guard group
        prev = None
        for it in items:
            if it["g"] == "guards":
                if it["_got"] and prev is not None:
                    first_begin = min(r["q"] for r, _ in it["_got"])
                    self._barrier(ctx, prev, first_begin, it)
                continue
            if not it["_got"]:
                continue
            first_begin = min(r["q"] for r, _ in it["_got"])
            if prev is not None:
                self._barrier(ctx, prev, first_begin, it)
            if it.get("failing"):
                self.stats["failing_groups"] += 1
                prev = None
            else:
                prev = it

    def _barrier(self, ctx, prev, first_begin, it):
        for r, _m in prev["_got"]:
            if r.get("g") in ("cond", "unless"):
                continue  # whether a started guard is awaited to completion is C05's clause
            e = ctx["ends"].get(r["q"])
            if e is None or e["q"] > first_begin:
                self.add("barrier", ctx["n"], cb=r["c"], group=prev["g"], next_group=it["g"],
                         ended=(e["q"] if e else None), next_began=first_begin)
                return

    @staticmethod
    def satisfied(it):
        if it["g"] == "guards":
            return True
        for _c, l in it["_left"].items():
            for m in l:
                if not m.get("optional"):
                    return False
        return True

    def check_member(self, ctx, r, mem, item, level):
        n = ctx["n"]
        # nested events: in rtc mode nothing may run inside the callback
        kids = ctx["kids"].get(r["q"], [])
        if mem.get("nested"):
            self.stats["nested_execs"] += len(mem["nested"])
            self.walk(ctx, kids, mem["nested"], level + 1)
        elif kids:
            self.add("seq.nested_inside", n, cb=r["c"], ran=[k["c"] for k in kids][:6])
        # events sent to another, independent machine from inside this callback: that machine
        # processes them then and there
        if mem.get("xnested"):
            end_q = (ctx["ends"].get(r["q"]) or {}).get("q", 1 << 60)
            xsent = [a for a in ctx["ns"].get(r["q"], []) if a.get("to")]
            for xn, a in zip(mem["xnested"], xsent):
                btag = xn["inst"]
                e2 = ctx["nsend"].get(a["q"])
                hi = e2["q"] if e2 else end_q
                recs = [x for x in ctx["seg"] if x["k"] == "cb+" and x["i"] == btag and a["q"] < x["q"] < hi]
                qs = {x["q"] for x in recs}
                top = [x for x in recs if x.get("p") not in qs]
                kids2 = {}
                for x in recs:
                    if x.get("p") in qs:
                        kids2.setdefault(x["p"], []).append(x)
                binst = self.ref.insts.get(btag)
                if binst is not None:
                    if e2 is not None and e2["out"][0] == "ret" and xn.get("state") is not None:
                        want = _encv(binst.rp.value_of.get(xn["state"]))
                        if canon(e2.get("st")) != canon(want):
                            self.add("x_state", n, to=btag, event=a["ev"], expected=xn["state"],
                                     actual=e2.get("st"), sent_from=r["c"])
                    ctx2 = dict(ctx, tag=btag, inst=binst, kids=kids2)
                    self.walk(ctx2, top, xn["execs"], level + 1)
        # nested send return values
        acts = ctx["ns"].get(r["q"], [])
        exps = mem.get("nsret", [])
        if len(acts) != len(exps) and not mem.get("optional") and mem.get("raises") is None:
            self.add("nested_count", n, cb=r["c"], expected=len(exps), actual=len(acts))
        for a, e in zip(acts, exps):
            end = ctx["nsend"].get(a["q"])
            if end is None:
                continue
            ao = end["out"]
            if e[0] == "ret":
                nb = e[2] if len(e) > 2 else None
                if ao[0] != "ret" or not same_result(e[1], nb, ao[1]):
                    self.add("nested_ret", n, cb=r["c"], expected=e, actual=ao)
            else:
                if ao[0] != "exc" or not self.same_exc(e[1], ao[1]):
                    self.add("nested_ret", n, cb=r["c"], expected=e, actual=ao)
        # callback outcome
        end = ctx["ends"].get(r["q"])
        if end is not None and mem.get("raises") is None and not mem.get("optional"):
            if end["out"][0] == "exc":
                self.add("cb_raised", n, cb=r["c"], out=end["out"])

    def bound_ok(self, ctx, r, item):
        keep = len(self.findings)
        if self.binder is not None:
            self.binder(self, ctx, r, item)
        else:
            self.check_bound(ctx, r, item, guard=True)
        ok = len(self.findings) == keep
        del self.findings[keep:]
        return ok

    def check_bound(self, ctx, r, item, guard=False):
        n = ctx["n"]
        inst = ctx["inst"]
        rp = inst.rp
        b = r["b"]
        ev, src, dst, view = item["ev"], item["src"], item["dst"], item["view"]
        exp = {"event": {"$e": ev}, "source": {"$s": src}, "target": {"$s": dst},
               "state": {"$s": view}, "machine": {"$o": [ctx["tag"], "machine"]},
               "model": {"$o": [ctx["tag"], "model"]},
               "event_data": {"$ed": sorted(k for k in (item.get("kw") or {}) if k not in BUILTINS)}}
        for k in ("event", "source", "target", "state", "machine", "model", "event_data"):
            if k in b and canon(b[k]) != canon(exp[k]):
                if k == "model" and b[k] == {"$r": "Model"}:
                    continue
                self.add("bound." + k, n, cb=r["c"], expected=exp[k], actual=b[k], group=item["g"])
                return
        # the state of the machine as read from inside the callback (rtc only)
        if inst.rtc and not guard:
            want = _encv(rp.value_of[view]) if view in rp.value_of else None
            if canon(r["sv"]) != canon(want):
                self.add("view", n, cb=r["c"], group=item["g"], expected=view, actual=r["sv"])
                return
        # user keyword arguments addressed by name
        kw = item.get("kw") or {}
        meta = rp.prog["cbs"].get(r["c"].split("/", 1)[1], {})
        for prm in meta.get("sig", []):
            nm, kind = prm["name"], prm["kind"]
            if nm in BUILTINS or nm not in b:
                continue
            if kind in ("pk", "ko") and not (item.get("args")):
                want = kw[nm] if nm in kw else prm.get("default")
                if canon(b[nm]) != canon(_encv(want)):
                    self.add("bound.user", n, cb=r["c"], param=nm, expected=want, actual=b[nm])
                    return
            elif kind == "varkw":
                got = b[nm]
                if not isinstance(got, dict) or "$d" not in got:
                    self.add("bound.user", n, cb=r["c"], param=nm, expected="dict", actual=got)
                    return
                gd = {canon(k): v for k, v in got["$d"]}
                named = {p2["name"] for p2 in meta.get("sig", []) if p2["kind"] in ("pk", "ko")}
                for k, v in kw.items():
                    if k in named or k in BUILTINS:
                        # (a user keyword with a reserved name never reaches callbacks: the engine's
                        # value of that name is what the loop below demands)
                        continue
                    if canon(k) not in gd or canon(gd[canon(k)]) != canon(_encv(v)):
                        self.add("bound.user", n, cb=r["c"], param=nm, key=k, expected=v,
                                 actual=gd.get(canon(k)))
                        return
                for k in ("event", "source", "target", "state"):
                    if k in named:
                        continue
                    if canon(k) not in gd or canon(gd[canon(k)]) != canon(exp[k]):
                        self.add("bound." + k, n, cb=r["c"], via=nm, expected=exp[k],
                                 actual=gd.get(canon(k)))
                        return


def _encv(v):
    """Scenario JSON value -> the encoding the recorder produces for the decoded value."""
    if isinstance(v, dict):
        if "$tu" in v:
            return {"$tu": [_encv(x) for x in v["$tu"]]}
        if "$d" in v:
            return {"$d": [[_encv(k), _encv(x)] for k, x in v["$d"]]}
        if "$en" in v or "$exc" in v:
            return v
        return {"$d": [[k, _encv(x)] for k, x in v.items()]}
    if isinstance(v, list):
        return [_encv(x) for x in v]
    return v


def same_result(expected, nb, actual):
    """Results of one event: ``before`` part then ``on`` part, each compared as a multiset."""
    ev = _encv(expected)
    if nb is None or not isinstance(ev, list) or not isinstance(actual, list):
        return canon(ev) == canon(actual)
    if len(ev) != len(actual):
        return False
    return (sorted(canon(x) for x in actual[:nb]) == sorted(canon(x) for x in ev[:nb])
            and sorted(canon(x) for x in actual[nb:]) == sorted(canon(x) for x in ev[nb:]))


def compare(scenario, result, stop_at_first=True, coarse=False):
    m = Matcher(scenario, result, coarse=coarse)
    m.run(stop_at_first=stop_at_first)
    return m.findings, m.stats
