"""Deterministic simulation framework for python-statemachine (see /verif/DESIGN.md)."""
