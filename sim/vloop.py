"""Virtual-time asyncio event loop (DESIGN §2.5).

CPython's own BaseEventLoop machinery (``_run_once``, Task, Future, gather, timers, FIFO ready
queue) is used unchanged; only the clock and the selector are replaced.  ``select(timeout)``
*advances the virtual clock* instead of sleeping, ``select(None)`` (nothing runnable and no timer)
raises ``SimDeadlock``.
"""

import asyncio
import random
from asyncio import events as _events
from asyncio import futures as _futures
from asyncio import tasks as _tasks


class SimDeadlock(RuntimeError):
    pass


class SimStepCap(RuntimeError):
    pass


class _Selector:
    def __init__(self, loop):
        self._loop = loop

    def select(self, timeout=None):
        loop = self._loop
        if timeout is None:
            raise SimDeadlock("nothing runnable and no timer pending")
        if timeout > 0:
            sched = loop._scheduled
            if sched:
                when = sched[0]._when
                if when > loop._vt:
                    loop._vt = when
                    loop.jumps += 1
            else:  # pragma: no cover - timeout>0 implies a timer
                loop._vt += timeout
        return ()

    def close(self):
        pass


ALL_LOOPS = []  # every SimLoop created in this process since the last reset (closed at run end)


class SimLoop(asyncio.BaseEventLoop):
    step_cap = 200000

    def __init__(self):
        super().__init__()
        self._vt = 0.0
        self.steps = 0
        self.jumps = 0
        self._clock_resolution = 1e-9
        self._selector = _Selector(self)
        # un-retrieved exceptions of orphan tasks are part of some scenarios: keep stderr quiet
        self.set_exception_handler(lambda loop, context: None)
        ALL_LOOPS.append(self)

    def time(self):
        return self._vt

    def _process_events(self, event_list):
        pass

    def _write_to_self(self):
        pass

    def _run_once(self):
        self.steps += 1
        if self.steps > self.step_cap:
            raise SimStepCap(f"more than {self.step_cap} loop iterations")
        super()._run_once()

    def close(self):
        if self.is_running():
            return
        if self.is_closed():
            return
        # BaseEventLoop.close() shuts the default executor down; we never create one.
        super().close()

    # no subprocesses / sockets / signals in the simulation
    def _make_socket_transport(self, *a, **k):  # pragma: no cover
        raise NotImplementedError

    def __del__(self, _warn=None):  # silence "unclosed event loop" at interpreter exit
        pass


class SimPolicy(asyncio.DefaultEventLoopPolicy):
    def new_event_loop(self):
        return SimLoop()


# --------------------------------------------------------------------------------------------
# asyncio.as_completed with a seeded, explicit start order.
#
# CPython builds ``{ensure_future(f) for f in set(fs)}``: the coroutines are wrapped into tasks in
# set-iteration (memory address) order, so the order in which guard coroutines *start* is arbitrary
# in a real process.  The simulator owns that choice: the version below is the stdlib algorithm
# with the set comprehension replaced by an explicit permutation drawn from the scenario.
# --------------------------------------------------------------------------------------------

_perm_state = {"seed": 0, "calls": 0, "perms": 0}


def set_perm_seed(seed):
    _perm_state["seed"] = int(seed)
    _perm_state["calls"] = 0
    _perm_state["perms"] = 0


def _permute(items):
    n = _perm_state["calls"]
    _perm_state["calls"] = n + 1
    if len(items) > 1:
        rnd = random.Random(_perm_state["seed"] * 1000003 + n)
        rnd.shuffle(items)
        _perm_state["perms"] += 1
    return items


def sim_as_completed(fs, *, timeout=None):
    if _futures.isfuture(fs) or asyncio.iscoroutine(fs):
        raise TypeError(f"expect an iterable of futures, not {type(fs).__name__}")

    from asyncio.queues import Queue

    done = Queue()
    loop = _events.get_event_loop()
    ordered = _permute(list(fs))
    todo_list = [_tasks.ensure_future(f, loop=loop) for f in ordered]
    todo = set(todo_list)
    timeout_handle = None

    def _on_timeout():
        for f in todo_list:
            if f in todo:
                f.remove_done_callback(_on_completion)
                done.put_nowait(None)
        todo.clear()

    def _on_completion(f):
        if not todo:
            return
        todo.remove(f)
        done.put_nowait(f)
        if not todo and timeout_handle is not None:
            timeout_handle.cancel()

    async def _wait_for_one():
        f = await done.get()
        if f is None:
            raise asyncio.TimeoutError
        return f.result()

    for f in todo_list:
        f.add_done_callback(_on_completion)
    if todo and timeout is not None:
        timeout_handle = loop.call_later(timeout, _on_timeout)
    for _ in range(len(todo)):
        yield _wait_for_one()


_installed = {"done": False}


def install():
    """Install the policy and the as_completed replacement in this process (idempotent)."""
    if _installed["done"]:
        return
    asyncio.set_event_loop_policy(SimPolicy())
    asyncio.as_completed = sim_as_completed
    _tasks.as_completed = sim_as_completed
    _installed["done"] = True


def reset_loops():
    """Close every loop created so far and forget the library's per-thread cached loop."""
    import statemachine.utils as u

    for lp in ALL_LOOPS:
        try:
            if not lp.is_running() and not lp.is_closed():
                # cancel whatever is still pending (orphans) so nothing leaks into the next run
                for t in list(_tasks.all_tasks(lp)):
                    t._log_destroy_pending = False
                    try:
                        t.get_coro().close()
                    except Exception:
                        pass
                for h in list(lp._ready):
                    h.cancel()
                for h in list(lp._scheduled):
                    h.cancel()
                lp._ready.clear()
                lp._scheduled.clear()
                lp.close()
        except Exception:  # pragma: no cover
            pass
    del ALL_LOOPS[:]
    if hasattr(u._cached_loop, "loop"):
        del u._cached_loop.loop
    try:
        _events.set_event_loop(None)
    except Exception:  # pragma: no cover
        pass
