"""Run-time side of the generated user code: the recorder and the behaviour interpreter.

Every generated callback is one line: ``return SIM.cb(<cbid>, self, locals())`` (or
``return await SIM.acb(...)``).  What the callback *does* (delay, nested sends, return value, raise)
is data taken from the scenario, so the reference model can predict it, the minimiser can delete it
and the replay file contains it (DESIGN §2.4).
"""

import asyncio
import sys
import threading

import contextvars

GUARD_GROUPS = ("cond", "unless")
# which sender task is executing (asyncio): tasks created by gather() inherit the sender's context
SENDER = contextvars.ContextVar("sim_sender", default=None)


class SimBlank:
    """A listener that provides nothing."""


class SimSharedProbe:
    """A listener meant to be shared by several machines (an audit log): it notes which machine each
    completed transition belonged to.  Not part of the recorded callbacks."""

    def __init__(self):
        self.heard = []

    def after_transition(self, event, machine=None):
        self.heard.append(getattr(machine, "_sim_tag", None))


class SimFault(Exception):
    pass


class SimLookup(LookupError):
    pass


class SimValue(ValueError):
    pass


class SimStorageError(OSError):
    pass


class SimRuntime(RuntimeError):
    """Application errors often derive from RuntimeError -- which asyncio also uses for its own
    'loop is already running' conditions."""


class SimStop(StopIteration):
    """StopIteration escaping from a callback (an unguarded ``next()`` on an exhausted iterator): an
    ordinary failure for synchronous machines.  (Inside a coroutine Python itself turns it into a
    RuntimeError, so it is only injected into machines without coroutine callbacks.)"""


class SimType(TypeError):
    """A TypeError raised from inside a callback (``None + 1`` in user code): an ordinary failure, not a
    statement about how the callback was called or how guard values compare."""


class SimAttr(AttributeError):
    """An AttributeError raised from inside a callback or property body (e.g. ``self.customer.vip``
    with ``customer`` set to None): an ordinary failure, not 'the attribute does not exist'."""


class SimBaseFault(BaseException):
    """A failure that is not an ``Exception`` (like CancelledError / KeyboardInterrupt raised inside a
    callback on its own, or an application-defined BaseException)."""


EXC_CLASSES = {
    "SimBaseFault": SimBaseFault,
    "SimFault": SimFault,
    "SimLookup": SimLookup,
    "SimValue": SimValue,
    "SimStorageError": SimStorageError,
    "SimRuntime": SimRuntime,
    "SimAttr": SimAttr,
    "SimStop": SimStop,
    "SimType": SimType,
}


def _is_machine(v):
    try:
        return getattr(v, "_sim_is_machine", False) is True
    except Exception:
        return False


def enc(v, _depth=0):
    """Encode a value seen by user code into a JSON-able, address-free form."""
    if v is None or isinstance(v, (bool, int, float)):
        return v
    t = type(v)
    if t is str:
        return v
    # library objects (duck-typed so that this module does not import the library)
    tn = t.__name__
    if tn in ("BoundEvent", "Event"):
        return {"$e": str(v)}
    if tn in ("State", "InstanceState", "AnyState"):
        return {"$s": v.id}
    if tn == "EventData":
        try:
            return {"$ed": sorted(v.trigger_data.kwargs)}
        except Exception:
            return "$event_data"
    if tn == "Transition":
        return {"$t": [v.source.id if v.source is not None else None, v.target.id, str(v.event)]}
    try:
        d = v.__dict__  # also works through the weakref proxy the engine hands out
    except Exception:
        d = None
    if d is not None:
        role = d.get("_sim_role")
        if role is not None:
            return {"$o": [d.get("_sim_tag"), role]}
    if _is_machine(v):
        return {"$o": [getattr(SIM.tl, "constructing", None) or SIM.constructing, "machine"]}
    if _depth > 4:
        return "$deep"
    if t is tuple:
        return {"$tu": [enc(x, _depth + 1) for x in v]}
    if t is list:
        return [enc(x, _depth + 1) for x in v]
    if t is dict:
        return {"$d": [[enc(k, _depth + 1), enc(x, _depth + 1)] for k, x in v.items()]}
    import enum

    if isinstance(v, BaseException):
        return {"$exc": [tn, v.args[0] if v.args and isinstance(v.args[0], str) else str(v)]}
    if isinstance(v, enum.Enum):
        return {"$en": [t.__name__, v.name]}
    return {"$r": tn}


def dec(v):
    """Decode a scenario value (JSON) into the Python value handed to the library."""
    if isinstance(v, dict):
        if "$tu" in v:
            return tuple(dec(x) for x in v["$tu"])
        if "$d" in v:
            return {dec(k): dec(x) for k, x in v["$d"]}
        if "$en" in v:
            return SIM.enums[v["$en"][0]][v["$en"][1]]
        if "$exc" in v:
            import builtins

            return getattr(builtins, v["$exc"][0])(v["$exc"][1])
        return {k: dec(x) for k, x in v.items()}
    if isinstance(v, list):
        return [dec(x) for x in v]
    return v


class Sim:
    def __init__(self):
        self.reset({})

    # ------------------------------------------------------------------ life cycle
    def reset(self, scenario):
        self.trace = []
        self.seq = 0
        self.epoch = 0
        self.beh = scenario.get("beh", {})
        self.gv = scenario.get("gv", {})
        self.gv_kind = scenario.get("gv_kind", {})
        self.on_snapshot = None  # set by the runner: a callback snapshots its own model (and machine)
        self.sidx = scenario.get("sidx", {})  # cbid-prefix (program name) -> {value-key: state index}
        self.jc = {}
        self.machines = {}
        self.models = {}
        self.fields = {}
        self.constructing = None
        self.failed = set()
        self.tl = threading.local()
        self.threads = None  # ThreadSim when the run is thread-scheduled
        self.enums = {}
        self.sender = None  # contextvar-free sender id for async campaigns (set by harness)
        self.tok_rules = scenario.get("tok_rules")
        self.writes = {}
        self.storage_faults = scenario.get("storage_faults", {})
        self.stats = {"cb": 0, "sends": 0, "raises": 0, "delays": 0, "vdelay": 0.0, "orphans": 0}

    def storage_write(self, model, value):
        """Called by property-backed generated models on every write of the state field."""
        tag = self.tag_of(model)
        n = self.writes.get(tag, 0)
        self.writes[tag] = n + 1
        fail = n in (self.storage_faults.get(tag) or ())
        self.rec(k="wr", i=tag, n=n, v=enc(value), e=self.epoch, failed=fail)
        if fail:
            self.stats["storage_faults"] = self.stats.get("storage_faults", 0) + 1
            e = SimStorageError(f"injected storage error at write {n}")
            e.sim_id = ["storage", tag, self.epoch, 0, n]
            raise e

    def _write_model(self, tag, w):
        """User code writes a (valid) state value into the model from inside a callback."""
        mo = self.models.get(tag)
        if mo is None:
            return
        self.rec(k="xw", i=tag, v=w["value"], e=self.cur_epoch())
        setattr(mo, self.fields.get(tag, "state"), dec(w["value"]))
        self.stats["writes_in_callbacks"] = self.stats.get("writes_in_callbacks", 0) + 1

    def probe(self, name, obj=None):
        """A user-defined attribute of the machine was evaluated / called (C13: must never happen
        because of a send())."""
        self.rec(k="probe", c=name, e=self.epoch)
        return 1

    def rec(self, **kw):
        self.seq += 1
        kw["q"] = self.seq
        self.trace.append(kw)
        return self.seq

    # ------------------------------------------------------------------ helpers
    def tag_of(self, obj):
        d = getattr(obj, "__dict__", None)
        if d is not None:
            t = d.get("_sim_tag")
            if t is not None:
                return t
        t = getattr(obj, "_sim_tag", None)
        if t is not None:
            return t
        c = getattr(self.tl, "constructing", None)
        return c if c is not None else self.constructing

    def _machine(self, tag, obj, loc):
        m = loc.get("machine")
        if m is not None and _is_machine(m):
            return m
        m = self.machines.get(tag)
        if m is not None:
            return m
        if _is_machine(obj):
            return obj
        return None

    def _state_seen(self, tag, obj):
        try:
            m = self.machines.get(tag)
            if m is None and _is_machine(obj):
                m = obj
            if m is not None:
                return enc(m.current_state_value)
            mo = self.models.get(tag)
            if mo is not None:
                return enc(getattr(mo, self.fields.get(tag, "state"), None))
        except Exception as e:  # pragma: no cover
            return {"$err": type(e).__name__}
        return "$unknown"

    def rule(self, cbid, tag, epoch, j, loc=None, dp=0):
        rules = self.beh.get(cbid)
        if not rules:
            return None
        for r in rules:
            d_ = r.get("dp")
            if d_ is not None and d_ != dp:
                continue
            e = r.get("ep")
            if e is not None and e != epoch:
                continue
            jj = r.get("j")
            if jj is not None and jj != j:
                continue
            jl = r.get("jlt")
            if jl is not None and not (j < jl):
                continue
            ii = r.get("inst")
            if ii is not None and ii != tag:
                continue
            tk = r.get("tok")
            if tk is not None and (loc is None or loc.get("tok") != tk):
                continue
            return r
        return None

    def guard_value(self, cbid, epoch, sv):
        g = self.gv.get(cbid)
        if g is None:
            return True
        if isinstance(g, dict):
            v = g.get("v")
            kind = g.get("kind", "bool")
            bits = v[epoch % len(v)]
        else:
            kind = self.gv_kind.get(cbid, "bool")
            bits = g[epoch % len(g)]
        idx = 0
        sm = self.sidx.get(cbid.split("/", 1)[0])
        if sm is not None:
            import json

            idx = sm.get(json.dumps(sv, sort_keys=True), 0)
        bit = (bits >> idx) & 1
        if kind == "bool":
            return bool(bit)
        # truthy / falsy values of other types (guards are compared on bool(value))
        pick = (bits + epoch) % 5
        return (3, "x", [0], (None,), 2.5)[pick] if bit else (0.0, "", [], None, ())[pick]

    def cur_epoch(self):
        e = getattr(self.tl, "epoch", None)
        return self.epoch if e is None else e

    def _begin(self, cbid, obj, loc, grp):
        tag = self.tag_of(obj)
        epoch = self.cur_epoch()
        stack = getattr(self.tl, "stack", None)
        dp = len(stack) if stack else 0
        key = (tag, cbid, epoch, dp)
        j = self.jc.get(key, 0)
        self.jc[key] = j + 1
        bound = {}
        for k, v in loc.items():
            if k == "self" or k == "__class__":
                continue
            bound[k] = enc(v)
        sv = self._state_seen(tag, obj)
        f = sys._getframe(2)
        d = 0
        while f is not None:
            d += 1
            f = f.f_back
        try:
            vt = asyncio.get_running_loop().time()
        except RuntimeError:
            vt = None
        parent = stack[-1] if stack else None
        th = self.threads.current() if self.threads is not None else None
        q = self.rec(k="cb+", i=tag, c=cbid, g=grp, e=epoch, j=j, dp=dp, b=bound, sv=sv, d=d, p=parent,
                     t=vt, th=th, s=self.sender_id())
        self.stats["cb"] += 1
        return tag, epoch, j, q, sv, dp

    def sender_id(self):
        s = getattr(self.tl, "sender", None)
        if s is not None:
            return s
        s = SENDER.get()
        if s is not None:
            return s
        try:
            t = asyncio.current_task()
        except RuntimeError:
            t = None
        if t is not None:
            return getattr(t, "_sim_sender", None)
        return None

    def _make_exc(self, name, cbid, tag, epoch, j, dp=0):
        e = EXC_CLASSES[name](f"injected {name} at {cbid} ep={epoch} depth={dp} j={j}")
        e.sim_id = [cbid, tag, epoch, dp, j]
        return e

    def _describe_exc(self, e):
        sid = getattr(e, "sim_id", None)
        out = {"cls": type(e).__name__}
        if sid is not None:
            out["sim_id"] = sid
        if type(e).__name__ == "TransitionNotAllowed":
            try:
                out["event"] = str(e.event)
                out["state"] = e.state.id
            except Exception:  # pragma: no cover
                pass
        if type(e).__name__ == "InvalidStateValue":
            try:
                out["value"] = enc(e.value)
            except Exception:  # pragma: no cover
                pass
        return out

    def _scribble(self, loc):
        """A callback that declared ``event_data`` takes the keyword dictionary the event exposes
        (``event_data.extended_kwargs``) and changes ITS copy: drops the reserved ``event`` entry before
        forwarding the rest somewhere, adds an annotation.  What the other callbacks of the event receive
        is none of its business."""
        ed = (loc or {}).get("event_data")
        if ed is None:
            return
        d = ed.extended_kwargs
        d.pop("event", None)
        for k in [k_ for k_ in d if k_ in ("x", "y", "z", "tok")][:1]:
            d.pop(k)
        d["sim_scribbled"] = True
        self.stats["scribbles"] = self.stats.get("scribbles", 0) + 1

    def _attach_blank(self, sm):
        """A callback attaches one more listener (an object without any callback) to its own machine
        while the event is being processed."""
        self.stats["attach"] = self.stats.get("attach", 0) + 1
        sm.add_listener(SimBlank())

    # ------------------------------------------------------------------ synchronous callbacks
    def cb(self, cbid, obj, loc, grp=None):
        tag, epoch, j, q, sv, dp = self._begin(cbid, obj, loc, grp)
        stack = getattr(self.tl, "stack", None)
        if stack is None:
            stack = self.tl.stack = []
        stack.append(q)
        try:
            rule = self.rule(cbid, tag, epoch, j, loc, dp)
            if self.threads is not None:
                self.threads.yield_point("cb")
            ret = None
            if rule is not None:
                if rule.get("attach"):
                    self._attach_blank(self._machine(tag, obj, loc))
                if rule.get("snapshot") and self.on_snapshot is not None:
                    self.on_snapshot(tag, rule["snapshot"])
                if rule.get("scribble"):
                    self._scribble(loc)
                if rule.get("write") is not None:
                    self._write_model(tag, rule["write"])
                sends = rule.get("sends")
                if (sends and (rule.get("sends_jlt") is None or j < rule["sends_jlt"])
                        and (rule.get("sends_dplt") is None or dp < rule["sends_dplt"])):
                    if rule.get("sends_repeat"):
                        sends = list(sends) * int(rule["sends_repeat"])
                    sm = self._machine(tag, obj, loc)
                    for s in sends:
                        self._send_sync(sm, s, q, tag, loc)
                for xs in rule.get("xsends") or []:
                    self._xsend_sync(xs, q, tag, loc)
                rz = rule.get("raise")
                if rz:
                    self.stats["raises"] += 1
                    self.failed.add((tag, epoch))
                    raise self._make_exc(rz, cbid, tag, epoch, j, dp)
                ret = self._ret(rule, cbid, epoch, j, dp)
            if grp in GUARD_GROUPS:
                ret = self.guard_value(cbid, epoch, sv)
            self.rec(k="cb-", r=q, c=cbid, out=["ret", enc(ret)])
            return ret
        except BaseException as e:
            self.rec(k="cb-", r=q, c=cbid, out=["exc", self._describe_exc(e)])
            raise
        finally:
            stack.pop()

    def _xsend_sync(self, xs, q, tag, loc):
        """Send an event to ANOTHER, independent machine from inside this callback."""
        sm2 = self.machines.get(xs["inst"])
        if sm2 is None:
            return
        ev, args, kw = self._fill(xs, loc)
        self.stats["xsends"] = self.stats.get("xsends", 0) + 1
        n = self.rec(k="ns+", i=tag, r=q, ev=ev, a=enc(list(args)), kw=enc(kw), to=xs["inst"])
        try:
            r = sm2.send(ev, *args, **kw)
        except BaseException as e:
            self.rec(k="ns-", r=n, out=["exc", self._describe_exc(e)], to=xs["inst"])
            raise
        self.rec(k="ns-", r=n, out=["ret", enc(r)], to=xs["inst"], st=enc(sm2.current_state_value))
        return r

    async def _xsend_async(self, xs, q, tag, loc):
        sm2 = self.machines.get(xs["inst"])
        if sm2 is None:
            return
        ev, args, kw = self._fill(xs, loc)
        self.stats["xsends"] = self.stats.get("xsends", 0) + 1
        n = self.rec(k="ns+", i=tag, r=q, ev=ev, a=enc(list(args)), kw=enc(kw), to=xs["inst"])
        try:
            r = sm2.send(ev, *args, **kw)
            if asyncio.iscoroutine(r) or isinstance(r, asyncio.Future):
                r = await r
        except BaseException as e:
            self.rec(k="ns-", r=n, out=["exc", self._describe_exc(e)], to=xs["inst"])
            raise
        self.rec(k="ns-", r=n, out=["ret", enc(r)], to=xs["inst"], st=enc(sm2.current_state_value))
        return r

    def _fill(self, s, loc):
        kw = dict(dec(s.get("kwargs") or {}))
        fwd = s.get("fwd")
        if fwd:
            for name in fwd:
                if name in loc:
                    kw[name] = loc[name]
        if s.get("tokx"):
            kw["tok"] = f"{loc.get('tok')}{s['tokx']}"
        return s["event"], [dec(a) for a in (s.get("args") or [])], kw

    def _send_sync(self, sm, s, q, tag, loc):
        ev, args, kw = self._fill(s, loc)
        self.stats["sends"] += 1
        n = self.rec(k="ns+", i=tag, r=q, ev=ev, a=enc(list(args)), kw=enc(kw))
        try:
            if s.get("style") == "call":
                r = getattr(sm, ev)(*args, **kw)
            else:
                r = sm.send(ev, *args, **kw)
        except BaseException as e:
            self.rec(k="ns-", r=n, out=["exc", self._describe_exc(e)])
            raise
        if asyncio.iscoroutine(r):
            # a plain callback of an async machine: the event was queued by the call; the coroutine it
            # got back (the drain the running loop already performs) cannot be awaited from here
            r.close()
            r = None
            self.stats["plain_sends_on_async_machine"] = self.stats.get("plain_sends_on_async_machine", 0) + 1
        self.rec(k="ns-", r=n, out=["ret", enc(r)])
        return r

    # ------------------------------------------------------------------ coroutine callbacks
    async def acb(self, cbid, obj, loc, grp=None):
        tag, epoch, j, q, sv, dp = self._begin(cbid, obj, loc, grp)
        try:
            rule = self.rule(cbid, tag, epoch, j, loc, dp)
            ret = None
            if rule is not None:
                if rule.get("attach"):
                    self._attach_blank(self._machine(tag, obj, loc))
                if rule.get("snapshot") and self.on_snapshot is not None:
                    self.on_snapshot(tag, rule["snapshot"])
                if rule.get("scribble"):
                    self._scribble(loc)
                pre = rule.get("pre")
                if pre is not None:
                    self.stats["delays"] += 1
                    self.stats["vdelay"] += pre
                    await asyncio.sleep(pre)
                stale = (tag, epoch) in self.failed or epoch != self.cur_epoch()
                if stale:
                    self.stats["orphans"] += 1
                if rule.get("write") is not None and not stale:
                    self._write_model(tag, rule["write"])
                sends = rule.get("sends")
                if sends and rule.get("sends_jlt") is not None and not (j < rule["sends_jlt"]):
                    sends = None
                if sends and not stale:
                    if rule.get("sends_repeat"):
                        sends = list(sends) * int(rule["sends_repeat"])
                    sm = self._machine(tag, obj, loc)
                    for s in sends:
                        await self._send_async(sm, s, q, tag, loc)
                if not stale:
                    for xs in rule.get("xsends") or []:
                        await self._xsend_async(xs, q, tag, loc)
                rz = rule.get("raise")
                if rz:
                    self.stats["raises"] += 1
                    self.failed.add((tag, epoch))
                    raise self._make_exc(rz, cbid, tag, epoch, j, dp)
                post = rule.get("post")
                if post is not None:
                    self.stats["delays"] += 1
                    self.stats["vdelay"] += post
                    await asyncio.sleep(post)
                ret = self._ret(rule, cbid, epoch, j, dp)
            if grp in GUARD_GROUPS:
                ret = self.guard_value(cbid, epoch, sv)
            self.rec(k="cb-", r=q, c=cbid, out=["ret", enc(ret)])
            return ret
        except BaseException as e:
            self.rec(k="cb-", r=q, c=cbid, out=["exc", self._describe_exc(e)])
            raise

    def _ret(self, rule, cbid, epoch, j, dp=0):
        r = rule.get("ret")
        if isinstance(r, dict) and "$uniq" in r:
            return f"u:{cbid}:{epoch}:{dp}:{j}"
        return dec(r)

    async def _send_async(self, sm, s, q, tag, loc):
        ev, args, kw = self._fill(s, loc)
        self.stats["sends"] += 1
        n = self.rec(k="ns+", i=tag, r=q, ev=ev, a=enc(list(args)), kw=enc(kw))
        try:
            if s.get("style") == "call":
                r = getattr(sm, ev)(*args, **kw)
            else:
                r = sm.send(ev, *args, **kw)
            if asyncio.iscoroutine(r) or isinstance(r, asyncio.Future):
                r = await r
        except BaseException as e:
            self.rec(k="ns-", r=n, out=["exc", self._describe_exc(e)])
            raise
        self.rec(k="ns-", r=n, out=["ret", enc(r)])
        return r


SIM = Sim()
