"""Reference interpreter (DESIGN §2.8).

Written from the documentation and the property statements; shares no code with the library.  It
works on the abstract program and the same behaviour tables as the runner, so it predicts results,
exceptions, states and the sequence of callback *group instances* of every operation.
"""

import ast
import json

SENT = object()

CONV_GENERIC = {
    "before": ["before_transition"],
    "on": ["on_transition"],
    "after": ["after_transition"],
    "exit": ["on_exit_state"],
    "enter": ["on_enter_state"],
}


def vkey(v):
    return json.dumps(v, sort_keys=True)


class RefRaise(Exception):
    def __init__(self, desc):
        super().__init__(desc)
        self.desc = desc


def effective_trans(prog):
    """The declared transitions plus, for every ``X.from_.any(...)`` declaration (``prog["any"]``), one
    copy per non-final state.  The library makes those copies when the event attribute is processed,
    i.e. after every explicit ``a.to(b)`` of the class body (states are declared first in rendered
    programs), in declaration order of the states: so they come last in each state's list."""
    out = list(prog["trans"])
    nonfinal = [s["id"] for s in prog["states"] if not s.get("final")]
    for ai, a in enumerate(prog.get("any", [])):
        for sid in nonfinal:
            t = {k: v for k, v in a.items() if k != "alias"}
            t["src"] = sid
            t["any"] = ai
            out.append(t)
    return out


class RefProgram:
    def __init__(self, prog):
        self.prog = prog
        self.name = prog["name"]
        self.states = prog["states"]
        self.sid = [s["id"] for s in self.states]
        self.sindex = {s["id"]: i for i, s in enumerate(self.states)}
        self.value_of = {s["id"]: (s["id"] if s.get("value") is None else s["value"]) for s in self.states}
        self.id_of_value = {vkey(v): k for k, v in self.value_of.items()}
        self.state_by_id = {s["id"]: s for s in self.states}
        self.initial = next(s["id"] for s in self.states if s.get("initial"))
        self.trans_from = {s: [] for s in self.sid}
        self.trans = effective_trans(prog)
        for i, t in enumerate(self.trans):
            t = dict(t)
            t["idx"] = i
            self.trans_from[t["src"]].append(t)
        self.names = {}  # role -> {name: cbid}
        for cbid in prog["cbs"]:
            role, name = cbid.split(".", 1)
            self.names.setdefault(role, {})[name] = cbid
        ev = []
        for s in self.sid:
            for t in self.trans_from[s]:
                for e in t["events"]:
                    if e not in ev:
                        ev.append(e)
        self.events = ev
        # names some spec refers to: only those are resolved into callbacks by the library
        ref = set()
        for t in self.trans:
            for g in ("validators", "cond", "unless", "before", "on", "after"):
                for expr in t.get(g, []):
                    ref.update(_expr_names(expr))
            for e in t["events"]:
                ref.update((f"before_{e}", f"on_{e}", f"after_{e}"))
        for s in self.states:
            ref.update(s.get("enter", []))
            ref.update(s.get("exit", []))
            ref.update((f"on_enter_{s['id']}", f"on_exit_{s['id']}"))
        ref.update(("before_transition", "on_transition", "after_transition", "on_enter_state",
                    "on_exit_state"))
        self.referenced = ref

    def unresolved(self, roles, tag):
        """Names referenced inline (not by naming convention) that none of the given providers has:
        the constructor refuses such a machine (InvalidDefinition) before anything runs."""
        def provided(name):
            if name in self.events:
                return True  # the machine's own event trigger (chained event)
            m = self.prog["cbs"].get("machine." + name)
            if m is not None and m.get("style") in ("callable", "decorator", "devent", "closure"):
                return True
            for role in roles:
                meta = self.prog["cbs"].get(f"{role}.{name}")
                if meta is None:
                    continue
                if meta.get("only_for") is not None and tag not in meta["only_for"]:
                    continue
                return True
            return False

        missing = []
        for t in self.trans:
            for g in ("validators", "cond", "unless", "before", "on", "after"):
                for expr in t.get(g, []):
                    for name in _expr_names(expr):
                        if not provided(name) and name not in missing:
                            missing.append(name)
        for s in self.states:
            for g in ("enter", "exit"):
                for name in s.get(g, []):
                    if not provided(name) and name not in missing:
                        missing.append(name)
        return missing

    def allowed(self, sid):
        out = []
        for t in self.trans_from[sid]:
            for e in t["events"]:
                if e not in out:
                    out.append(e)
        return out

    def full(self, cbid):
        return self.prog["cbs"][cbid].get("full") or f"{self.name}/{cbid}"


class _Names(dict):
    def __init__(self, fn):
        super().__init__()
        self.fn = fn

    def __missing__(self, k):
        return self.fn(k)


class RefInst:
    def __init__(self, ref, tag, rp, cfg, roles, late=()):
        self.ref = ref
        self.tag = tag
        self.rp = rp
        self.rtc = cfg.get("rtc", True)
        self.allow = cfg.get("allow", False)
        self.start_value = cfg.get("start_value")
        self.roles = list(roles)  # providers attached at construction, in order
        self.late = list(late)  # providers attached later with add_listener
        self.model_tag = cfg.get("model_tag", tag)
        self.queue = []
        self.processing = False
        self.epoch = 0
        self.engine = "sync"
        self.activated = False
        self.depth = 0

    # ------------------------------------------------------------------ state
    @property
    def state(self):
        return self.ref.model_state.get(self.model_tag)

    @state.setter
    def state(self, v):
        self.ref.model_state[self.model_tag] = v

    def decide_engine(self):
        cbs = self.rp.prog["cbs"]
        self.engine = "sync"
        for cbid, meta in cbs.items():
            role = cbid.split(".", 1)[0]
            if (role in self.roles and meta.get("async")
                    and cbid.split(".", 1)[1] in self.rp.referenced):
                self.engine = "async"
                break
        return self.engine

    # ------------------------------------------------------------------ providers
    def has(self, role, name):
        """cbid of ``name`` on provider ``role`` for THIS instance (instance-level callbacks may exist
        on some instances of a class only), else None."""
        # ("L0#2" is a second listener object of class L0: same callbacks, another provider)
        c = self.rp.names.get(role.split("#")[0], {}).get(name)
        if c is None:
            return None
        only = self.rp.prog["cbs"][c].get("only_for")
        if only and self.tag not in only:
            return None
        return c

    def providers(self, name, include_late=True):
        roles = self.roles + (self.late if include_late else [])
        out = []
        seen = set()
        for r in roles:
            if r in seen:
                continue
            seen.add(r)
            c = self.has(r, name)
            if c is not None and (c not in out or "#" in r):
                out.append(c)
        return out

    def members(self, kind, t, ev):
        """cbids of the callbacks that must run in group ``kind`` of transition ``t``."""
        names = []
        if t is None:  # initial pseudo transition: only the enter group of the start state
            if kind != "enter":
                return []
        if kind in ("before", "on", "after", "validators"):
            names.extend(t.get(kind, []))
            if kind != "validators":
                names.extend(CONV_GENERIC[kind])
                names.append(f"{kind}_{ev}")
        elif kind == "exit":
            s = self.rp.state_by_id[t["src"]]
            names.extend(s.get("exit", []))
            names.extend(CONV_GENERIC["exit"])
            names.append(f"on_exit_{s['id']}")
        elif kind == "enter":
            dst = t["dst"] if t is not None else self.start_state()
            s = self.rp.state_by_id[dst]
            names.extend(s.get("enter", []))
            names.extend(CONV_GENERIC["enter"])
            names.append(f"on_enter_{s['id']}")
        out = []
        for n in names:
            prev = list(out)
            for c in self.providers(n):
                # (the same cbid twice in ONE name's provider list = two listener objects of one class)
                if c not in prev:
                    out.append(c)
        return out

    def guard_cbids(self, t, unique=False):
        """Guard callbacks of a candidate, once per *occurrence* of their name in its guard entries."""
        out = []
        for expr in list(t.get("cond", [])) + list(t.get("unless", [])):
            for n in _expr_names(expr, dedupe=False):
                for c in self.providers(n):
                    if unique and c in out:
                        continue
                    out.append(c)
        return out

    def _gval(self, name, sv, include_late):
        val = True
        first = True
        for c in self.providers(name, include_late=include_late):
            v = self.ref.guard_value(self.rp.full(c), self.epoch, sv)
            if first:
                val = v
                first = False
            else:
                val = val and v
            if not val:
                break
        return val

    def enabled(self, t):
        sv = self.rp.value_of[self.state]
        for expr in t.get("cond", []):
            if not bool(self._eval(expr, sv, self.roles)):
                return False
            for late in self.late:
                if _is_name(expr) and self.has(late, expr):
                    if not bool(self._eval(expr, sv, [late])):
                        return False
        for expr in t.get("unless", []):
            if bool(self._eval(expr, sv, self.roles)):
                return False
            for late in self.late:
                if _is_name(expr) and self.has(late, expr):
                    if bool(self._eval(expr, sv, [late])):
                        return False
        return True

    def _eval(self, expr, sv, roles):
        def one(name):
            val = True
            first = True
            for r in roles:
                c = self.has(r, name)
                if c is None:
                    continue
                v = self.ref.guard_value(self.rp.full(c), self.epoch, sv)
                if first:
                    val, first = v, False
                else:
                    val = val and v
                if not val:
                    break
            return val

        if _is_name(expr):
            return one(expr)
        return eval(compile(expr, "<guard>", "eval"), {"__builtins__": {}}, _Names(one))

    def start_state(self):
        if self.start_value is not None:
            return self.rp.id_of_value[vkey(self.start_value)]
        return self.rp.initial

    # ------------------------------------------------------------------ processing
    def construct(self, execs):
        """Effects of building the machine over the model: returns exception desc or None."""
        self.decide_engine()
        if self.state is None:
            self.queue.append({"event": "__initial__", "args": [], "kwargs": {}, "initial": True})
        if self.engine == "sync":
            return self._drain(execs)
        return None

    def activate(self, execs):
        return self._drain(execs)

    def _drain(self, execs):
        if not self.rtc:
            if self.queue:
                er = self.queue.pop(0)
                self._trigger(er, execs)
            return None
        if self.processing:
            return None
        self.processing = True
        first = SENT
        try:
            while self.queue:
                er = self.queue.pop(0)
                try:
                    r = self._trigger(er, execs)
                except RefRaise:
                    del self.queue[:]
                    raise
                if first is SENT:
                    first = r
        finally:
            self.processing = False
        return None if first is SENT else first

    def send(self, er, execs):
        if not self.rtc:
            return self._unsent(self._trigger(er, execs))
        self.queue.append(er)
        return self._drain(execs)

    @staticmethod
    def _unsent(r):
        return None if r is SENT else r

    def _trigger(self, er, execs):
        ev = er["event"]
        ex = {"event": ev, "items": [], "kwargs": er.get("kwargs", {}), "args": er.get("args", []),
              "src": self.state, "trans": None}
        execs.append(ex)
        if isinstance(self.state, dict):
            # the model holds a value that maps to no state: every event fails on reading it
            raise RefRaise({"cls": "InvalidStateValue", "value": self.state.get("$invalid")})
        if er.get("initial"):
            ex["initial"] = True
            dst = self.start_state()
            ex["dst"] = dst
            ex["trans"] = -1
            self._write(dst)
            self._run_group("enter", None, er, ex, view=dst, src="", dst=dst)
            self.activated = True
            return SENT
        src = self.state
        for t in self.rp.trans_from[src]:
            if ev not in t["events"]:
                continue
            self._run_group("validators", t, er, ex, view=src, src=src, dst=t["dst"])
            gi = {"g": "guards", "t": t["idx"], "ev": ev, "src": src, "dst": t["dst"], "view": src,
                  "members": [{"c": c} for c in self.guard_cbids(t)],
                  "kw": er.get("kwargs", {}), "args": er.get("args", [])}
            ex["items"].append(gi)
            gi["order"] = self.guard_order(t, ev)
            self._guard_faults(t, gi)
            if not self.enabled(t):
                continue
            ex["trans"] = t["idx"]
            ex["dst"] = t["dst"]
            dst = t["dst"]
            res = self._run_group("before", t, er, ex, view=src, src=src, dst=dst)
            nb = len(res)
            if not t.get("internal"):
                self._run_group("exit", t, er, ex, view=src, src=src, dst=dst)
            res = res + self._run_group("on", t, er, ex, view=src, src=src, dst=dst)
            self._write(dst)
            if not t.get("internal"):
                self._run_group("enter", t, er, ex, view=dst, src=src, dst=dst)
            self._run_group("after", t, er, ex, view=dst, src=src, dst=dst)
            ex["nb"] = nb
            ex["vals"] = res
            if len(res) == 0:
                return None
            if len(res) == 1:
                return res[0]
            return res
        if not self.allow:
            raise RefRaise({"cls": "TransitionNotAllowed", "event": ev, "state": src})
        return None

    def _write(self, dst):
        """The single assignment of the model field; storage faults are positions in the write count."""
        n = self.ref.count_write(self.model_tag, self.epoch)
        if n is not None:
            raise RefRaise({"cls": "SimStorageError", "sim_id": ["storage", self.model_tag, self.epoch, 0, n]})
        self.state = dst

    def guard_order(self, t, ev):
        """The guard callbacks of candidate ``t`` in the order both engines evaluate them -- entries in
        declaration order (``cond`` then ``unless``), stopping at the first that fails -- or None outside
        the simple case (plain names with one provider each, no late listeners, no property / attribute
        guards, names not shared with another candidate of the same event)."""
        if self.late:
            return None
        def names_of(t_):
            return {n_ for k_ in ("cond", "unless") for e in t_.get(k_, []) for n_ in _expr_names(e)}

        names = names_of(t)
        for t2 in self.rp.trans_from[self.state]:
            if t2["idx"] != t["idx"] and ev in t2["events"]:
                if names & names_of(t2):
                    return None
        seq = []
        sv = self.rp.value_of[self.state]
        for k_, want in (("cond", True), ("unless", False)):
            for e in t.get(k_, []):
                if not _is_name(e):
                    return None
                provs = self.providers(e)
                if len(provs) != 1:
                    return None
                meta = self.rp.prog["cbs"][provs[0]]
                if meta.get("prop") or meta.get("inst_attr") is not None:
                    return None
                full = self.rp.full(provs[0])
                seq.append(full)
                if bool(self.ref.guard_value(full, self.epoch, sv)) != want:
                    return seq
        return seq

    def _guard_faults(self, t, gi):
        """An injected exception in a guard (only generated for 'solo' guards, see C04)."""
        for c in self.guard_cbids(t, unique=True):
            full = self.rp.full(c)
            for r in self.ref.beh.get(full, []):
                if r.get("raise") and r.get("ep") == self.epoch and r.get("j") is None:
                    gi["failing"] = True
                    raise RefRaise({"cls": r["raise"], "sim_cb": full})

    def _run_group(self, kind, t, er, ex, view, src, dst):
        ev = er["event"]
        cbids = self.members(kind, t, ev)
        item = {"g": kind, "t": (t["idx"] if t is not None else -1), "ev": ev, "src": src, "dst": dst,
                "view": view, "members": [], "kw": er.get("kwargs", {}), "args": er.get("args", [])}
        ex["items"].append(item)
        vals = []
        pending = None
        for c in cbids:
            full = self.rp.full(c)
            dp = self.depth
            key = (self.tag, full, self.epoch, dp)
            j = self.ref.jc.get(key, 0)
            self.ref.jc[key] = j + 1
            mem = {"c": c, "j": j, "nested": [], "nsret": [], "raises": None}
            item["members"].append(mem)
            if pending is not None:
                continue
            rule = self.ref.rule(full, self.tag, self.epoch, j, er.get("kwargs"), dp)
            ret = None
            if rule is not None:
                if rule.get("snapshot"):
                    self.ref.snapshot_inst(self, rule["snapshot"]["as"])
                if rule.get("write") is not None:
                    nid = self.rp.id_of_value.get(vkey(rule["write"]["value"]))
                    if nid is not None:
                        self.ref.count_write(self.model_tag, self.epoch)
                        self.state = nid
                sends = rule.get("sends") or []
                if rule.get("sends_jlt") is not None and not (j < rule["sends_jlt"]):
                    sends = []
                if rule.get("sends_dplt") is not None and not (dp < rule["sends_dplt"]):
                    sends = []
                if sends and rule.get("sends_repeat"):
                    sends = list(sends) * int(rule["sends_repeat"])
                for s in sends:
                    ner = {"event": s["event"], "args": list(s.get("args") or []),
                           "kwargs": self._fwd(s, er, c)}
                    if self.rtc:
                        self.queue.append(ner)
                        mem["nsret"].append(["ret", None])
                    else:
                        try:
                            self.depth += 1
                            try:
                                r = self._unsent(self._trigger(ner, mem["nested"]))
                            finally:
                                self.depth -= 1
                            nx = mem["nested"][-1]
                            mem["nsret"].append(
                                ["ret", r, nx.get("nb") if len(nx.get("vals") or []) >= 2 else None])
                        except RefRaise as e:
                            mem["nsret"].append(["exc", e.desc])
                            mem["raises"] = e.desc
                            item["failing"] = True
                            pending = e.desc
                            break
                if pending is not None:
                    continue
                for xs in rule.get("xsends") or []:
                    tgt = self.ref.insts.get(xs["inst"])
                    if tgt is None:
                        continue
                    ner = {"event": xs["event"], "args": list(xs.get("args") or []),
                           "kwargs": self._fwd(xs, er, c)}
                    tgt.epoch = self.epoch
                    saved = tgt.depth
                    is_async_cb = bool(self.rp.prog["cbs"][c].get("async"))
                    tgt.depth = self.depth + (0 if is_async_cb else 1)
                    xex = []
                    try:
                        r = tgt.send(ner, xex)
                    finally:
                        tgt.depth = saved
                    nx = xex[0] if xex else {}
                    mem.setdefault("xnested", []).append({"inst": xs["inst"], "execs": xex,
                                                          "state": tgt.state})
                    mem["nsret"].append(["ret", r, nx.get("nb") if len(nx.get("vals") or []) >= 2 else None])
                if rule.get("raise"):
                    if not self.rtc:
                        for c2 in cbids:
                            if c2 != c and self._may_send(self.rp.full(c2)):
                                self.ref.ambiguous = True
                    desc = {"cls": rule["raise"], "sim_id": [full, self.tag, self.epoch, dp, j]}
                    mem["raises"] = desc
                    item["failing"] = True
                    pending = desc
                    # siblings may or may not run; keep enumerating them (their j is irrelevant:
                    # the epoch ends here) but mark them optional
                    continue
                ret = rule.get("ret")
                if isinstance(ret, dict) and "$uniq" in ret:
                    ret = f"u:{full}:{self.epoch}:{dp}:{j}"
            mem["ret"] = ret
            vals.append(ret)
        if pending is not None:
            for m in item["members"]:
                if m["raises"] is None:
                    m["optional"] = True
                    if not self.rtc and any(r.get("raise") or r.get("sends")
                                            for r in self.ref.beh.get(self.rp.full(m["c"]), [])):
                        # rtc=False: a sibling that sends (depth-first) or raises as well makes the
                        # outcome depend on the unspecified order inside the group
                        self.ref.ambiguous = True
            raise RefRaise(pending)
        if kind == "after" and t is not None and self.rtc:
            # a callback NAME that is an event of the machine (``after="advance"``): the event is sent,
            # with the positional and user keyword arguments of the event being processed (queued
            # behind it in run-to-completion mode)
            reserved = ("event_data", "machine", "event", "model", "transition", "state", "source", "target")
            for name in t.get("after", []):
                if _is_name(name) and name in self.rp.events and not self.providers(name):
                    self.queue.append({"event": name, "args": list(er.get("args") or []),
                                       "kwargs": {k_: v_ for k_, v_ in (er.get("kwargs") or {}).items()
                                                  if k_ not in reserved}})
        return vals

    def _may_send(self, full):
        return any(r.get("sends") for r in self.ref.beh.get(full, []))

    def _fwd(self, s, er, c):
        kw = dict(s.get("kwargs") or {})
        for name in s.get("fwd") or []:
            # the sender declares ``name=<default>``; it forwards whatever it was bound to
            dflt = None
            for prm in self.rp.prog["cbs"][c].get("sig", []):
                if prm["name"] == name:
                    dflt = prm.get("default")
            kw[name] = (er.get("kwargs") or {}).get(name, dflt)
        return kw


def _is_name(expr):
    return expr.isidentifier()


def _expr_names(expr, dedupe=True):
    if _is_name(expr):
        return [expr]
    out = []
    for n in ast.walk(ast.parse(expr, mode="eval")):
        if isinstance(n, ast.Name) and not (dedupe and n.id in out):
            out.append(n.id)
    return out


class Ref:
    """All instances of one scenario."""

    def __init__(self, scenario):
        self.sc = scenario
        self.progs = [RefProgram(p) for p in scenario["programs"]]
        self.beh = scenario.get("beh", {})
        self.gv = scenario.get("gv", {})
        self.jc = {}
        self.ambiguous = False
        self.writes = {}
        self.insts = {}
        self.model_state = {}
        self.sidx = {rp.name: {vkey(rp.value_of[s]): i for i, s in enumerate(rp.sid)} for rp in self.progs}

    def count_write(self, tag, epoch):
        n = self.writes.get(tag, 0)
        self.writes[tag] = n + 1
        if n in (self.sc.get("storage_faults", {}).get(tag) or ()):
            return n
        return None

    def rule(self, cbid, tag, epoch, j, kwargs=None, dp=0):
        rules = self.beh.get(cbid)
        if not rules:
            return None
        for r in rules:
            if r.get("dp") is not None and r["dp"] != dp:
                continue
            if r.get("ep") is not None and r["ep"] != epoch:
                continue
            if r.get("j") is not None and r["j"] != j:
                continue
            if r.get("jlt") is not None and not (j < r["jlt"]):
                continue
            if r.get("inst") is not None and r["inst"] != tag:
                continue
            if r.get("tok") is not None and (kwargs or {}).get("tok") != r["tok"]:
                continue
            return r
        return None

    def guard_value(self, cbid, epoch, sv):
        g = self.gv.get(cbid)
        if g is None:
            return True
        if isinstance(g, dict):
            v = g["v"]
            kind = g.get("kind", "bool")
        else:
            v = g
            kind = "bool"
        bits = v[epoch % len(v)]
        idx = self.sidx.get(cbid.split("/", 1)[0], {}).get(vkey(sv), 0)
        bit = (bits >> idx) & 1
        if kind == "bool":
            return bool(bit)
        return (1, "x", [0], (None,))[bits % 4] if bit else (0, "", [], None)[bits % 4]

    # ------------------------------------------------------------------ operations
    def op_new(self, op, epoch):
        rp = self.progs[op["prog"]]
        roles = ["machine"]
        if (rp.prog.get("model") or {}).get("kind", "attr") != "none" and op.get("model", True):
            roles.append("model")
        roles.extend(op.get("listeners", []))
        cfg = {"rtc": op.get("rtc", True), "allow": op.get("allow", False),
               "start_value": op.get("start_value"), "model_tag": op.get("model_tag", op["inst"])}
        inst = RefInst(self, op["inst"], rp, cfg, roles)
        inst.epoch = epoch
        self.insts[op["inst"]] = inst
        if not op.get("keep_model"):
            self.model_state.setdefault(inst.model_tag, None)
        execs = []
        out = {"res": None, "exc": None, "execs": execs}
        missing = rp.unresolved(roles, op["inst"])
        if missing:
            out["exc"] = {"cls": "InvalidDefinition", "missing": missing}
            out["state"] = None
            out["engine"] = inst.engine
            return out
        try:
            inst.construct(execs)
        except RefRaise as e:
            out["exc"] = e.desc
        out["state"] = inst.state
        out["engine"] = inst.engine
        return out

    def op_send(self, op, epoch):
        inst = self.insts[op["inst"]]
        inst.epoch = epoch
        execs = []
        out = {"res": None, "exc": None, "execs": execs}
        er = {"event": op["event"], "args": list(op.get("args") or []), "kwargs": dict(op.get("kwargs") or {})}
        try:
            out["res"] = inst.send(er, execs)
        except RefRaise as e:
            out["exc"] = e.desc
        out["state"] = inst.state
        return out

    def op_activate(self, op, epoch):
        inst = self.insts[op["inst"]]
        inst.epoch = epoch
        execs = []
        out = {"res": None, "exc": None, "execs": execs}
        try:
            inst.activate(execs)
        except RefRaise as e:
            out["exc"] = e.desc
        out["state"] = inst.state
        return out

    def op_bind_foreign(self, op, epoch):
        inst = self.insts[op["inst"]]
        return {"res": None, "exc": None, "execs": [], "state": inst.state}

    def op_drop(self, op, epoch):
        self.insts.pop(op["inst"], None)
        return {"res": None, "exc": None, "execs": [], "state": None, "noop": True}

    def op_attach_probe(self, op, epoch):
        inst = self.insts[op["inst"]]
        return {"res": None, "exc": None, "execs": [], "state": inst.state}

    def op_setopt(self, op, epoch):
        """``sm.allow_event_without_transition = <bool>`` on a live machine (a public attribute that
        the engines read at every event)."""
        inst = self.insts[op["inst"]]
        inst.allow = bool(op["allow"])
        return {"res": None, "exc": None, "execs": [], "state": inst.state}

    def op_noop(self, op, epoch):
        return {"res": None, "exc": None, "execs": [], "state": None, "noop": True}

    def op_activate2(self, op, epoch):
        return self.op_activate(op, epoch)

    def op_send2(self, op, epoch):
        inst = self.insts[op["inst"]]
        inst.epoch = epoch
        execs = []
        out = {"res": None, "exc": None, "execs": execs}
        for o in (op["a"], op["b"]):
            inst.queue.append({"event": o["event"], "args": list(o.get("args") or []),
                               "kwargs": dict(o.get("kwargs") or {})})
        try:
            inst._drain(execs)
        except RefRaise as e:
            out["exc"] = e.desc
        out["state"] = inst.state
        return out

    def op_write(self, op, epoch):
        inst = self.insts[op["inst"]]
        rp = inst.rp
        out = {"res": None, "exc": None, "execs": []}
        how = op["how"]
        new = None
        if how == "cs":
            new = op["state_id"]
        else:
            key = vkey(op["value"])
            if key in rp.id_of_value:
                new = rp.id_of_value[key]
            elif how in ("csv", "csobj"):
                out["exc"] = {"cls": "InvalidStateValue", "value": op["value"]}
            else:
                new = {"$invalid": op["value"]}
        if new is not None:
            n = self.count_write(inst.model_tag, epoch)
            if n is not None:
                out["exc"] = {"cls": "SimStorageError", "sim_id": ["storage", inst.model_tag, epoch, 0, n]}
            else:
                inst.state = new
        out["state"] = inst.state
        return out

    def op_clone(self, op, epoch):
        import copy

        a = self.insts[op["inst"]]
        if op["how"] == "copy":
            # shallow copy: same model (so the same state), same listener objects
            b = RefInst(self, op["as"], a.rp, {"rtc": a.rtc, "allow": a.allow, "start_value": a.start_value,
                                              "model_tag": a.model_tag}, list(a.roles), list(a.late))
            b.engine = a.engine
            b.activated = a.activated
            self.insts[op["as"]] = b
            return {"res": None, "exc": None, "execs": [], "state": a.state}
        b = RefInst(self, op["as"], a.rp, {"rtc": a.rtc, "allow": a.allow, "start_value": a.start_value,
                                          "model_tag": op["as"]}, list(a.roles), list(a.late))
        b.engine = a.engine
        b.queue = copy.deepcopy(a.queue)
        b.activated = a.activated
        self.model_state[op["as"]] = copy.deepcopy(a.state)
        self.insts[op["as"]] = b
        return {"res": None, "exc": None, "execs": [], "state": a.state}

    def snapshot_inst(self, a, tag):
        """A copy of instance ``a`` taken from inside one of its callbacks (its model, which holds the
        machine, is copied): the copy holds the state stored at that moment and nothing is queued on it --
        whatever the original was in the middle of is the original's business."""
        import copy

        b = RefInst(self, tag, a.rp, {"rtc": a.rtc, "allow": a.allow, "start_value": a.start_value,
                                      "model_tag": tag}, list(a.roles), list(a.late))
        b.engine = a.engine
        b.queue = []
        b.activated = True
        self.model_state[tag] = copy.deepcopy(a.state)
        self.insts[tag] = b

    def op_add_listener(self, op, epoch):
        inst = self.insts[op["inst"]]
        for role in op["listeners"]:
            if role not in inst.roles and role not in inst.late:
                inst.late.append(role)
        return {"res": None, "exc": None, "execs": [], "state": inst.state}
