"""Render an abstract program (JSON) into Python source and load it as a synthetic module.

Rendering to *source text* (rather than building classes with type()) gives real code objects with
real signatures (needed by the signature cache and C07), classes that pickle by reference (C17) and
a replay file a human can read (DESIGN §2.3).
"""

import json
import sys
import types

GROUPS = ("validators", "cond", "unless", "before", "on", "after")
ACTION_GROUPS = ("before", "exit", "on", "enter", "after")


def vsrc(v):
    """Python source for a scenario value."""
    if isinstance(v, dict):
        if "$tu" in v:
            items = ", ".join(vsrc(x) for x in v["$tu"])
            return "(" + items + ("," if len(v["$tu"]) == 1 else "") + ")"
        if "$en" in v:
            return f"{v['$en'][0]}.{v['$en'][1]}"
        raise ValueError(f"cannot render {v!r}")
    if isinstance(v, list):
        return "[" + ", ".join(vsrc(x) for x in v) + "]"
    return repr(v)


def vkey(v):
    return json.dumps(v, sort_keys=True)


def sig_src(sig):
    """sig: list of {"name","kind" in po|pk|ko|var|varkw, optional "default"} -> source."""
    out = ["self"]
    po = [p for p in sig if p["kind"] == "po"]
    pk = [p for p in sig if p["kind"] == "pk"]
    var = [p for p in sig if p["kind"] == "var"]
    ko = [p for p in sig if p["kind"] == "ko"]
    vkw = [p for p in sig if p["kind"] == "varkw"]
    out.extend(_p(p) for p in po)
    if po:
        out.append("/")
    out.extend(_p(p) for p in pk)
    if var:
        out.append("*" + var[0]["name"])
    elif ko:
        out.append("*")
    out.extend(_p(p) for p in ko)
    if vkw:
        out.append("**" + vkw[0]["name"])
    return ", ".join(out)


def _p(p):
    if "default" in p:
        return f"{p['name']}={vsrc(p['default'])}"
    return p["name"]


def state_value(prog, s):
    v = s.get("value", None)
    return s["id"] if v is None else v


def state_index_map(prog):
    return {vkey(state_value(prog, s)): i for i, s in enumerate(prog["states"])}


def cb_group(prog, cbid):
    return prog["cbs"][cbid]["group"]


def render_cb(prog, cbid, indent="    "):
    meta = prog["cbs"][cbid]
    role, name = cbid.split(".", 1)
    full = f"{prog['name']}/{cbid}"
    sig = sig_src(meta.get("sig", []))
    grp = meta["group"]
    if meta.get("prop"):
        # a property used as a guard: no parameters at all
        return (
            f"{indent}@property\n{indent}def {name}(self):\n"
            f"{indent}    return SIM.cb({full!r}, self, {{}}, {grp!r})\n"
        )
    if meta.get("static"):
        # a staticmethod: the same plain function whichever listener object of the class it is taken from
        if meta.get("async"):
            return (f"{indent}@staticmethod\n{indent}async def {name}(**kw):\n"
                    f"{indent}    return await SIM.acb({full!r}, kw.get('machine'), {{'kw': kw}}, {grp!r})\n")
        return (f"{indent}@staticmethod\n{indent}def {name}(**kw):\n"
                f"{indent}    return SIM.cb({full!r}, kw.get('machine'), {{'kw': kw}}, {grp!r})\n")
    deco = f"{indent}@_sim_deco\n" if meta.get("wrapped") else ""
    if meta.get("wrapped") == "sig":
        deco = f"{indent}@_sim_deco_sig\n"
    if meta.get("noself") and [(q["name"], q["kind"]) for q in meta.get("sig", [])] == [("args", "var"), ("kw", "varkw")]:
        # a method that takes the instance through ``*args`` (catch-all listener methods, hand-written
        # pass-through wrappers): the event's positional arguments follow the instance
        loc = '{"args": tuple(args[1:]), "kw": kw}'
        if meta.get("async"):
            return (f"{deco}{indent}async def {name}(*args, **kw):\n"
                    f"{indent}    return await SIM.acb({full!r}, args[0], {loc}, {grp!r})\n")
        return (f"{deco}{indent}def {name}(*args, **kw):\n"
                f"{indent}    return SIM.cb({full!r}, args[0], {loc}, {grp!r})\n")
    if meta.get("awaitable") and not meta.get("async"):
        # a plain function that RETURNS an awaitable (e.g. an undecorated wrapper around a coroutine
        # function): the async engine must await the value it returns
        return (
            f"{deco}{indent}def {name}({sig}):\n"
            f"{indent}    return SIM.acb({full!r}, self, locals(), {grp!r})\n"
        )
    if meta.get("async"):
        return (
            f"{deco}{indent}async def {name}({sig}):\n"
            f"{indent}    return await SIM.acb({full!r}, self, locals(), {grp!r})\n"
        )
    return (
        f"{deco}{indent}def {name}({sig}):\n"
        f"{indent}    return SIM.cb({full!r}, self, locals(), {grp!r})\n"
    )


def render_partial_fn(prog, cbid):
    """A module-level function used through ``functools.partial(fn, listener)`` as a callback."""
    meta = prog["cbs"][cbid]
    role, name = cbid.split(".", 1)
    full = f"{prog['name']}/{cbid}"
    sig = sig_src(meta.get("sig", [])).replace("self", "self_", 1)
    fn = f"_pf_{pyname(prog)}_{role}_{name}"
    body = "{k: v for k, v in locals().items() if k != 'self_'}"
    if meta.get("async"):
        return (f"async def {fn}({sig}):\n    return await SIM.acb({full!r}, self_, {body}, {meta['group']!r})\n")
    return f"def {fn}({sig}):\n    return SIM.cb({full!r}, self_, {body}, {meta['group']!r})\n"


def pyname(prog):
    return prog.get("pyname") or prog["name"]


def render_model(prog):
    m = prog.get("model") or {"kind": "attr"}
    kind = m.get("kind", "attr")
    field = m.get("field", "state")
    name = pyname(prog) + "_model"
    lines = []
    base = "object"
    if kind == "mixin":
        base = "MachineMixin"
    if kind == "libmodel":
        # a domain model that extends the library's own ``Model`` class
        base = "_LibModel"
    lines.append(f"class {name}({base}):")
    body = []
    if kind == "attr":
        body.append(f"    def __init__(self):\n        self.{field} = None\n")
    elif kind == "libmodel":
        body.append(f"    def __init__(self):\n        super().__init__()\n        self.{field} = None\n")
    elif kind == "noattr":
        body.append("    def __init__(self):\n        self.other = 1\n")
    elif kind == "classdefault":
        body.append(f"    {field} = None\n")
    elif kind == "property":
        body.append(
            "    def __init__(self):\n        self._store = {}\n"
            f"    @property\n    def {field}(self):\n        return self._store.get('v')\n"
            f"    @{field}.setter\n    def {field}(self, value):\n"
            "        SIM.storage_write(self, value)\n        self._store['v'] = value\n"
        )
    elif kind == "falsy_len":
        body.append(
            f"    def __init__(self):\n        self.{field} = None\n"
            "    def __len__(self):\n        return 0\n"
        )
    elif kind == "falsy_bool":
        body.append(
            f"    def __init__(self):\n        self.{field} = None\n"
            "    def __bool__(self):\n        return False\n"
        )
    elif kind == "mixin":
        body.append(
            f"    state_machine_name = {prog['module'] + '.' + pyname(prog)!r}\n"
            f"    state_field_name = {field!r}\n"
            f"    bind_events_as_methods = {bool(m.get('bind'))!r}\n"
            f"    def __init__(self):\n        self.{field} = None\n        super().__init__()\n"
        )
    for cbid in sorted(prog["cbs"]):
        if cbid.startswith("model."):
            body.append(render_cb(prog, cbid))
    if not body:
        body.append("    pass\n")
    lines.extend(body)
    return "\n".join(lines) + "\n"


def render_listener(prog, role):
    name = pyname(prog) + "_" + role
    body = []
    pre = []
    init = []
    for cbid in sorted(prog["cbs"]):
        if cbid.startswith(role + "."):
            if prog["cbs"][cbid].get("partial"):
                pre.append(render_partial_fn(prog, cbid))
                nm = cbid.split(".", 1)[1]
                only = prog["cbs"][cbid].get("only_for")
                line = f"self.{nm} = functools.partial(_pf_{pyname(prog)}_{role}_{nm}, self)\n"
                if only:
                    # an instance-level callback that only SOME instances of this class have
                    init.append(f"        if _tag in {only!r}:\n            {line}")
                else:
                    init.append(f"        {line}")
            else:
                body.append(render_cb(prog, cbid))
    if init:
        body.insert(0, "    _sim_takes_tag = True\n    def __init__(self, _tag=None):\n" + "".join(init))
    falsy = (prog.get("listener_falsy") or {}).get(role)
    if falsy == "len":
        # a listener that is falsy (an empty recorder with __len__): still a listener like any other
        body.append("    def __len__(self):\n        return 0\n")
    elif falsy == "bool":
        body.append("    def __bool__(self):\n        return False\n")
    if prog.get("listener_eq_all"):
        # every listener object compares (and hashes) equal to every other one, across classes
        body.append("    def __eq__(self, other):\n        return hasattr(other, '_sim_role')\n"
                    "    def __hash__(self):\n        return 11\n")
    elif prog.get("listener_eq"):
        # value-based equality: two listener objects of this class compare (and hash) equal
        body.append("    def __eq__(self, other):\n        return type(other) is type(self)\n"
                    "    def __hash__(self):\n        return 7\n")
    if not body:
        body.append("    pass\n")
    return "\n".join(pre) + ("\n" if pre else "") + f"class {name}:\n" + "\n".join(body) + "\n"


def style_of(prog, name):
    """How a machine-defined callback is attached: by name (default), by callable object, by decorator."""
    m = prog["cbs"].get("machine." + name)
    return (m or {}).get("style", "name")


def _names(lst, prog=None):
    out = []
    for x in lst:
        st = style_of(prog, x) if prog is not None and x.isidentifier() else "name"
        if st in ("decorator", "devent"):
            continue
        if st == "closure":
            # a free callable made by a factory: every such callable has the same __name__ ("hook")
            meta = prog["cbs"]["machine." + x]
            out.append(f"_sim_hook({prog['name'] + '/machine.' + x!r}, {meta['group']!r}, {bool(meta.get('async'))!r})")
            continue
        out.append(x if st == "callable" else repr(x))
    return "[" + ", ".join(out) + "]"


def transition_expr(t, kw):
    src, dst = t["src"], t["dst"]
    if t.get("decl") == "from":
        return f"{dst}.from_({src}, {', '.join(kw)})"
    if t.get("decl") == "itself" and src == dst:
        return f"{src}.to.itself({', '.join(kw)})"
    return f"{src}.to({dst}, {', '.join(kw)})"


def render_transition(prog, t, assign=None, expr_only=False):
    src, dst = t["src"], t["dst"]
    kw = []
    names = prog.get("event_names") or {}
    decl = prog.get("event_decl") or []
    if not assign and not expr_only:
        if any(e in decl for e in t["events"]):
            # events declared as stand-alone ``Event()`` attributes are passed as objects
            parts = [e if e in decl else (f"Event({e!r}, name={names[e]!r})" if e in names else repr(e))
                     for e in t["events"]]
            kw.append("event=" + (parts[0] if len(parts) == 1 else "[" + ", ".join(parts) + "]"))
        elif any(e in names for e in t["events"]):
            # explicit Event objects: the display name is independent of the identifier
            parts = [f"Event({e!r}, name={names[e]!r})" if e in names else repr(e) for e in t["events"]]
            kw.append("event=[" + ", ".join(parts) + "]")
        else:
            kw.append(f"event={' '.join(t['events'])!r}")
    if t.get("internal"):
        kw.append("internal=True")
    for g in GROUPS:
        if t.get(g) and _names(t[g], prog) != "[]":
            kw.append(f"{g}={_names(t[g], prog)}")
    call = transition_expr(t, kw)
    if expr_only:
        return call
    if assign and t.get("assign_event"):
        # declared through an explicit Event object: ``ev = Event(a.to(b), name="Label")``
        label = names.get(assign)
        return f"    {assign} = Event({call}" + (f", name={label!r}" if label else "") + ")\n"
    if assign:
        return f"    {assign} = {call}\n"
    return f"    {call}\n"


def render_machine(prog, base_name=None):
    lines = []
    base = base_name or "StateMachine"
    lines.append(f"class {pyname(prog)}({base}):")
    lines.append("    _sim_is_machine = True")
    # callbacks attached as callable objects must exist before the statements that use them
    for cbid in sorted(prog["cbs"]):
        if cbid.startswith("machine.") and prog["cbs"][cbid].get("style") == "callable" \
                and not prog["cbs"][cbid].get("inherited"):
            lines.append(render_cb(prog, cbid).rstrip("\n"))
    inst_attrs = sorted((c.split(".", 1)[1], m["value"]) for c, m in prog["cbs"].items()
                        if c.startswith("machine.") and m.get("inst_attr") is not None and not m.get("inherited"))
    if inst_attrs:
        # plain instance attributes of the machine used as guards, set by the subclass's own __init__
        # before the library's constructor runs
        lines.append("    def __init__(self, *args, **kwargs):")
        for nm, val in inst_attrs:
            lines.append(f"        self.{nm} = {val!r}")
        lines.append("        super().__init__(*args, **kwargs)")
    fe = prog.get("from_enum")
    if fe:
        # ``_ = States.from_enum(E, ...)``: every member of the Enum is a state named after it; the class
        # body reaches them through local aliases that are deleted again at its end
        en = fe["enum"]
        ini = next(s["id"] for s in prog["states"] if s.get("initial"))
        fin = ", ".join(f"{en}.{s['id']}" for s in prog["states"] if s.get("final"))
        lines.append(f"    _ = States.from_enum({en}, initial={en}.{ini}, final=[{fin}], "
                     f"use_enum_instance={bool(fe.get('use_enum_instance'))})")
        ids_ = [s["id"] for s in prog["states"]]
        lines.append("    " + ", ".join(ids_) + ", = " + ", ".join(f"_.{i}" for i in ids_) + ",")
    for s in prog["states"]:
        if s.get("inherited") or fe:
            continue
        kw = []
        if s.get("name"):
            kw.append(repr(s["name"]))
        if s.get("initial"):
            kw.append("initial=True")
        if s.get("final"):
            kw.append("final=True")
        if s.get("value", None) is not None:
            kw.append(f"value={vsrc(s['value'])}")
        if s.get("enter") and _names(s["enter"], prog) != "[]":
            kw.append(f"enter={_names(s['enter'], prog)}")
        if s.get("exit") and _names(s["exit"], prog) != "[]":
            kw.append(f"exit={_names(s['exit'], prog)}")
        lines.append(f"    {s['id']} = State({', '.join(kw)})")
    body = []
    done_groups = set()
    for e in prog.get("event_decl") or []:
        label = (prog.get("event_names") or {}).get(e)
        body.append(f"    {e} = Event(" + (f"name={label!r}" if label else "") + ")\n")
    for t in prog["trans"]:
        if t.get("inherited"):
            continue
        src = t["src"]
        if t.get("via_base"):
            # subclass transition declared from an inherited state object
            t2 = dict(t)
            line = render_transition(prog, t2).replace(
                f"{src}.to(", f"{base_name}.{src}.to(", 1
            )
            if t["dst"] in [s["id"] for s in prog["states"] if s.get("inherited")]:
                line = line.replace(f".to({t['dst']},", f".to({base_name}.{t['dst']},", 1)
            body.append(line)
        elif t.get("msrc") and t["msrc"] in done_groups:
            continue
        elif t.get("msrc") and sum(1 for x in prog["trans"] if x.get("msrc") == t["msrc"]) > 1:
            done_groups.add(t["msrc"])
            srcs = [x["src"] for x in prog["trans"] if x.get("msrc") == t["msrc"]]
            line = render_transition(prog, t)
            body.append(line.replace(f".from_({t['src']},", ".from_(" + ", ".join(srcs) + ",", 1))
        elif t.get("orgroup"):
            if t["orgroup"] in done_groups:
                continue
            done_groups.add(t["orgroup"])
            members = [x for x in prog["trans"] if x.get("orgroup") == t["orgroup"]]
            body.append(f"    {t['orgroup']} = " + " | ".join(render_transition(prog, x, expr_only=True) for x in members)
                        + "\n")
        elif t.get("devent") and f"machine.{t['events'][0]}" in prog["cbs"]:
            body.append("    @" + render_transition(prog, t, expr_only=True) + "\n"
                        + render_cb(prog, f"machine.{t['events'][0]}"))
        else:
            line = render_transition(prog, t, assign=t.get("assign"))
            inh = [s["id"] for s in prog["states"] if s.get("inherited")]
            if src in inh:
                line = line.replace(f"{src}.to(", f"{base_name}.{src}.to(", 1)
            if t["dst"] in inh:
                line = line.replace(f".to({t['dst']},", f".to({base_name}.{t['dst']},", 1)
            body.append(line)
    for a in prog.get("any", []):
        if a.get("inherited"):
            continue
        # ``ev = target.from_.any(...)``: one transition from every non-final state (declared after the
        # states and the explicit transitions); an ``event=`` argument there names nothing
        kw = []
        if a.get("alias"):
            kw.append(f"event={a['alias']!r}")
        for g in GROUPS:
            if a.get(g) and _names(a[g], prog) != "[]":
                kw.append(f"{g}={_names(a[g], prog)}")
        body.append(f"    {a['events'][0]} = {a['dst']}.from_.any({', '.join(kw)})\n")
    lines.append("".join(body).rstrip("\n"))
    # decorator-attached callbacks: @<event>.<group> / @<state>.enter|exit right after the declarations
    for cbid in sorted(prog["cbs"]):
        meta = prog["cbs"][cbid]
        if cbid.startswith("machine.") and meta.get("style") == "decorator" and not meta.get("inherited"):
            name = cbid.split(".", 1)[1]
            decos = []
            for t in prog["trans"]:
                for g in GROUPS:
                    if name in t.get(g, []):
                        decos.append(f"    @{t['assign']}.{g}")
            for st in prog["states"]:
                for g in ("enter", "exit"):
                    if name in st.get(g, []):
                        decos.append(f"    @{st['id']}.{g}")
            lines.append("\n".join(decos) + "\n" + render_cb(prog, cbid).rstrip("\n"))
    if prog.get("machine_eq") and not base_name:
        # a machine class with value semantics: all its instances compare (and hash) equal -- they are
        # still separate machines
        lines.append("    def __eq__(self, other):\n        return type(other) is type(self)\n"
                     "    def __hash__(self):\n        return 7")
    for pr in prog.get("probes", []):
        full = f"{prog['name']}/machine.{pr['name']}"
        if pr["kind"] == "property":
            lines.append(f"    @property\n    def {pr['name']}(self):\n        return SIM.probe({full!r}, self)")
        elif pr["kind"] == "raising_property":
            lines.append(f"    @property\n    def {pr['name']}(self):\n        SIM.probe({full!r}, self)\n"
                         f"        raise RuntimeError('user property {pr['name']} evaluated')")
        else:
            lines.append(f"    def {pr['name']}(self, *a, **k):\n        return SIM.probe({full!r}, self)")
    for cbid in sorted(prog["cbs"]):
        if cbid.startswith("machine.") and not prog["cbs"][cbid].get("inherited") \
                and prog["cbs"][cbid].get("style", "name") == "name" and prog["cbs"][cbid].get("inst_attr") is None:
            lines.append(render_cb(prog, cbid).rstrip("\n"))
    if fe:
        lines.append("    del " + ", ".join(s["id"] for s in prog["states"]))
    return "\n".join(lines) + "\n"


def render_program(prog, base_name=None):
    src = [
        "import enum",
        "from statemachine import StateMachine, State, Event",
        "from statemachine.states import States",
        "from statemachine.mixins import MachineMixin",
        "from statemachine.model import Model as _LibModel",
        "from sim.simrt import SIM",
        "import asyncio",
        "import functools",
        "",
        "def _sim_hook(cbid, grp, is_async=False):",
        "    if is_async:",
        "        async def hook(*args, **kw):",
        "            return await SIM.acb(cbid, kw.get('machine'), {'args': args, 'kw': kw}, grp)",
        "    else:",
        "        def hook(*args, **kw):",
        "            return SIM.cb(cbid, kw.get('machine'), {'args': args, 'kw': kw}, grp)",
        "    return hook",
        "",
        "def _sim_deco_sig(f):",
        "    # a signature-preserving decorator of the kind that publishes ``__signature__``",
        "    import inspect",
        "    w = _sim_deco(f)",
        "    w.__signature__ = inspect.signature(f)",
        "    return w",
        "",
        "def _sim_deco(f):",
        "    if asyncio.iscoroutinefunction(f):",
        "        @functools.wraps(f)",
        "        async def wrapper(*args, **kwargs):",
        "            return await f(*args, **kwargs)",
        "    else:",
        "        @functools.wraps(f)",
        "        def wrapper(*args, **kwargs):",
        "            return f(*args, **kwargs)",
        "    return wrapper",
        "",
    ]
    for en in prog.get("enums", []):
        src.append(f"class {en['name']}(enum.Enum):")
        for k, v in en["members"]:
            src.append(f"    {k} = {vsrc(v)}")
        src.append("")
    if prog.get("enum_import"):
        src.append(f"from {prog['enum_import'][0]} import {prog['enum_import'][1]}")
        src.append("")
    if base_name and prog.get("base_module"):
        src.append(f"from {prog['base_module']} import {base_name}")
        src.append("")
    src.append(render_machine(prog, base_name))
    mk = (prog.get("model") or {}).get("kind", "attr")
    if mk != "none":
        src.append(render_model(prog))
    for role in prog.get("listeners", []):
        src.append(render_listener(prog, role))
    return "\n".join(src)


def load_program(prog, source=None):
    """exec the rendered source in a synthetic module registered in sys.modules."""
    name = prog["module"]
    if source is None:
        source = render_program(prog, prog.get("base_name"))
    mod = types.ModuleType(name)
    mod.__file__ = f"<sim:{name}>"
    sys.modules[name] = mod
    code = compile(source, mod.__file__, "exec")
    exec(code, mod.__dict__)
    return mod


def unload_program(prog):
    name = prog["module"]
    mod = sys.modules.pop(name, None)
    try:
        from statemachine import registry

        for k in list(registry._REGISTRY):
            v = registry._REGISTRY[k]
            if getattr(v, "__module__", None) == name:
                del registry._REGISTRY[k]
    except Exception:  # pragma: no cover
        pass
    return mod
