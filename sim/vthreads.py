"""Deterministic thread scheduler (DESIGN §2.6).

Real ``threading.Thread``s; exactly one holds the baton.  ``sys.settrace`` line events inside the
library's files are the pre-emption points (plus explicit ``yield_point`` calls in generated
callbacks).  At each point the scheduler either continues or hands the baton to another thread,
according to an explicit plan ``[[step, thread], ...]``; the plan is drawn from the scenario PRNG
on first execution (PCT-style change points over the step count of a dry run) and then stored in the
scenario, so replay and minimisation re-use it verbatim.

The library never blocks on a lock (``acquire(blocking=False)`` only), so a parked thread is never
needed for progress and the scheduler cannot deadlock the system under test.
"""

import os
import sys
import threading


class ThreadSim:
    def __init__(self, repo, plan=None, step_cap=400000):
        self.prefix = os.path.join(os.path.realpath(repo), "statemachine") + os.sep
        self.plan = {int(s): t for s, t in (plan or [])}
        self.step = 0
        self.step_cap = step_cap
        self.sems = {}
        self.threads = {}
        self.order = []
        self.done = set()
        self.cur = None
        self.switches = []  # [step, from, to, file:line]
        self.sites = {}
        self.errors = {}
        self.tl = threading.local()
        self._files = {}
        self.overflow = False
        self.on_switch = None

    # ------------------------------------------------------------------ API for the harness
    def spawn(self, name, fn):
        self.sems[name] = threading.Semaphore(0)
        self.order.append(name)

        def body():
            self.tl.name = name
            self.sems[name].acquire()  # wait for the baton
            sys.settrace(self._trace)
            try:
                fn()
            except BaseException as e:  # harness-level failure inside a sender
                self.errors[name] = e
            finally:
                sys.settrace(None)
                self._finish(name)

        t = threading.Thread(target=body, name=name, daemon=True)
        self.threads[name] = t
        return t

    def run(self, timeout=120):
        for t in self.threads.values():
            t.start()
        first = self.order[0]
        self.cur = first
        self.sems[first].release()
        for t in self.threads.values():
            t.join(timeout)
            if t.is_alive():
                raise RuntimeError(f"thread {t.name} did not finish (scheduler wedged)")

    def current(self):
        return getattr(self.tl, "name", None)

    def yield_point(self, what="cb"):
        if getattr(self.tl, "name", None) is None:
            return
        self._point(f"<{what}>", 0)

    # ------------------------------------------------------------------ internals
    def _trace(self, frame, event, arg):
        fn = frame.f_code.co_filename
        ok = self._files.get(fn)
        if ok is None:
            try:
                ok = os.path.realpath(fn).startswith(self.prefix)
            except Exception:
                ok = False
            self._files[fn] = ok
        if ok:
            return self._local
        return None

    def _local(self, frame, event, arg):
        if event == "line":
            self._point(frame.f_code.co_filename, frame.f_lineno)
        return self._local

    def _point(self, fn, line):
        self.step += 1
        if self.step > self.step_cap:
            self.overflow = True
            return
        to = self.plan.get(self.step)
        if to is None:
            return
        me = self.tl.name
        if to == me or to in self.done or to not in self.sems:
            # the planned thread is not runnable: take the next runnable one, if any
            alive = [n for n in self.order if n not in self.done and n != me]
            if not alive:
                return
            if to in self.done or to not in self.sems:
                to = alive[0]
            else:
                return
        site = f"{os.path.basename(fn)}:{line}"
        self.switches.append([self.step, me, to, site])
        self.sites[site] = self.sites.get(site, 0) + 1
        if self.on_switch is not None:
            self.on_switch(self.step, me, to, site)
        self.cur = to
        self.sems[to].release()
        self.sems[me].acquire()

    def _finish(self, name):
        self.done.add(name)
        alive = [n for n in self.order if n not in self.done]
        if alive:
            nxt = alive[0]
            self.cur = nxt
            self.sems[nxt].release()


def draw_plan(rnd, total_steps, names, n_switch):
    """PCT-style: n_switch change points uniformly over the dry run's step count."""
    if total_steps < 2 or len(names) < 2:
        return []
    pts = sorted(rnd.sample(range(1, total_steps + 1), min(n_switch, total_steps)))
    return [[p, rnd.choice(names)] for p in pts]
