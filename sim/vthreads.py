"""Deterministic thread scheduler (DESIGN §2.6).

Real ``threading.Thread``s; exactly one holds the baton.  ``sys.settrace`` line events inside the
library's files are the pre-emption points (plus explicit ``yield_point`` calls in generated
callbacks).  At each point the scheduler either continues or hands the baton to another thread,
according to an explicit plan ``[[step, thread], ...]``; the plan is drawn from the scenario PRNG
on first execution (PCT-style change points over the step count of a dry run) and then stored in the
scenario, so replay and minimisation re-use it verbatim.

The library never blocks on a lock (``acquire(blocking=False)`` only), so a parked thread is never
needed for progress and the scheduler cannot deadlock the system under test.
"""

import os
import sys
import threading


class ThreadSim:
    def __init__(self, repo, plan=None, step_cap=400000):
        self.prefix = os.path.join(os.path.realpath(repo), "statemachine") + os.sep
        # plan entries: [thread, "file.py:line", occurrence, target]: when <thread> reaches that line
        # for the <occurrence>-th time, hand the baton to <target>.  Addressing by (thread, site,
        # occurrence) stays meaningful when earlier switches change the global order of steps.
        self.plan = {}
        for e in (plan or []):
            self.plan[(e[0], e[1], int(e[2]))] = e[3]
        self.occ = {}
        self.stack = []
        self.per_thread = {}  # thread -> list of sites in the order it reached them (dry runs)
        self.record = False
        self.step = 0
        self.step_cap = step_cap
        self.sems = {}
        self.threads = {}
        self.order = []
        self.done = set()
        self.cur = None
        self.switches = []  # [step, from, to, file:line]
        self.sites = {}
        self.errors = {}
        self.tl = threading.local()
        self._files = {}
        self.overflow = False
        self.on_switch = None

    # ------------------------------------------------------------------ API for the harness
    def spawn(self, name, fn):
        self.sems[name] = threading.Semaphore(0)
        self.order.append(name)

        def body():
            self.tl.name = name
            self.sems[name].acquire()  # wait for the baton
            sys.settrace(self._trace)
            try:
                fn()
            except BaseException as e:  # harness-level failure inside a sender
                self.errors[name] = e
            finally:
                sys.settrace(None)
                self._finish(name)

        t = threading.Thread(target=body, name=name, daemon=True)
        self.threads[name] = t
        return t

    def run(self, timeout=120):
        for t in self.threads.values():
            t.start()
        first = self.order[0]
        self.cur = first
        self.sems[first].release()
        for t in self.threads.values():
            t.join(timeout)
            if t.is_alive():
                raise RuntimeError(f"thread {t.name} did not finish (scheduler wedged)")

    def current(self):
        return getattr(self.tl, "name", None)

    def yield_point(self, what="cb"):
        if getattr(self.tl, "name", None) is None:
            return
        self._point(f"<{what}>", 0)

    # ------------------------------------------------------------------ internals
    def _trace(self, frame, event, arg):
        fn = frame.f_code.co_filename
        ok = self._files.get(fn)
        if ok is None:
            try:
                ok = os.path.realpath(fn).startswith(self.prefix)
            except Exception:
                ok = False
            self._files[fn] = ok
        if ok:
            return self._local
        return None

    def _local(self, frame, event, arg):
        if event == "line":
            self._point(frame.f_code.co_filename, frame.f_lineno)
        return self._local

    def _point(self, fn, line):
        self.step += 1
        if self.step > self.step_cap:
            self.overflow = True
            return
        me = self.tl.name
        site = f"{os.path.basename(fn)}:{line}"
        key = (me, site)
        n = self.occ.get(key, 0) + 1
        self.occ[key] = n
        if self.record:
            self.per_thread.setdefault(me, []).append(site)
        to = self.plan.get((me, site, n))
        if to is None:
            return
        if to == me or to in self.done or to not in self.sems:
            # the planned thread is not runnable: take the next runnable one, if any
            alive = [n for n in self.order if n not in self.done and n != me]
            if not alive:
                return
            if to in self.done or to not in self.sems:
                to = alive[0]
            else:
                return
        self.switches.append([self.step, me, to, site])
        self.stack.append(me)
        self.sites[site] = self.sites.get(site, 0) + 1
        if self.on_switch is not None:
            self.on_switch(self.step, me, to, site)
        self.cur = to
        self.sems[to].release()
        self.sems[me].acquire()

    def _finish(self, name):
        self.done.add(name)
        alive = [n for n in self.order if n not in self.done]
        if alive:
            # a pre-empting thread that finishes hands the baton back to the thread it pre-empted
            nxt = None
            while self.stack:
                c = self.stack.pop()
                if c not in self.done:
                    nxt = c
                    break
            if nxt is None:
                nxt = alive[0]
            self.cur = nxt
            self.sems[nxt].release()


def draw_plan(rnd, per_thread, names, n_switch, hot, engine_files, victim=False):
    """Draw change points addressed by (thread, site, occurrence).  ``per_thread`` is the dry run's
    list of sites per thread; ``hot`` the set of (file, line) synchronisation points."""
    def sites_of(t, kind):
        seen = {}
        out = []
        for s in per_thread.get(t, []):
            seen[s] = seen.get(s, 0) + 1
            fn, ln = s.rsplit(":", 1)
            if kind == "hot" and (fn, int(ln)) not in hot:
                continue
            if kind == "engine" and fn not in engine_files:
                continue
            out.append((s, seen[s]))
        return out

    plan = []
    used = set()
    vt = rnd.choice(names) if victim else None
    for _ in range(n_switch):
        t = vt or rnd.choice(names)
        x = rnd.random()
        cands = sites_of(t, "hot") if x < 0.7 else (sites_of(t, "engine") if x < 0.85 else sites_of(t, "any"))
        if not cands:
            cands = sites_of(t, "any")
        if not cands:
            continue
        s, n = rnd.choice(cands)
        if (t, s, n) in used:
            continue
        used.add((t, s, n))
        others = [x_ for x_ in names if x_ != t]
        if not others:
            continue
        plan.append([t, s, n, rnd.choice(others)])
    return plan
