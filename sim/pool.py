"""Parallel driver: many short seeded runs across processes (DESIGN §2.12)."""

import collections
import concurrent.futures as cf
import faulthandler
import multiprocessing
import os
import random
import time
import traceback

from . import campaign as campaign_mod
from .campaign import khash
from .campaign import run_seed
from .campaign import skeleton_hash


def style_probes(sc):
    """Which declaration / attachment styles the scenario's programs use (reach of the generator)."""
    out = set()
    for p in sc.get("programs") or []:
        if p.get("any"):
            out.add("probe.style.from_any")
            if any(a.get("alias") for a in p["any"]):
                out.add("probe.style.from_any_with_event_alias")
        if p.get("event_decl"):
            out.add("probe.style.standalone_Event_attribute")
        if p.get("event_names"):
            out.add("probe.style.Event_with_display_name")
        for t in p.get("trans") or []:
            if t.get("orgroup"):
                out.add("probe.style.transitions_composed_with_or")
            if t.get("devent"):
                out.add("probe.style.decorator_declared_event")
            if t.get("msrc"):
                out.add("probe.style.from_several_sources")
            if t.get("decl") == "from":
                out.add("probe.style.from_")
            if t.get("decl") == "itself":
                out.add("probe.style.to_itself")
            if t.get("assign_event"):
                out.add("probe.style.Event_wrapping_transitions")
            elif t.get("assign"):
                out.add("probe.style.attribute_assignment")
            if len(t.get("events") or []) > 1:
                out.add("probe.style.multi_event_transition")
            if t.get("internal"):
                out.add("probe.style.internal_transition")
            if any(not e.isidentifier() for e in list(t.get("cond", [])) + list(t.get("unless", []))):
                out.add("probe.style.guard_expression")
        for m in (p.get("cbs") or {}).values():
            for key, name in (("prop", "property_guard"), ("awaitable", "plain_function_returning_awaitable"),
                              ("wrapped", "decorated_callback"), ("partial", "functools_partial_callback"),
                              ("async", "coroutine_callback")):
                if m.get(key):
                    out.add("probe.style." + name)
            if m.get("style") in ("callable", "decorator", "closure"):
                out.add("probe.style.callback_by_" + m["style"])
    return sorted(out)


def run_chunk(pid, tier, verif_seed, start, count, per_run_timeout=300):
    """Worker: runs indices [start, start+count).  Pure function of its arguments."""
    camp = campaign_mod.get(pid)
    out = {"n": 0, "counters": collections.Counter(), "keys": set(), "skeletons": set(),
           "violations": [], "harness": [], "samples": [], "unarmed": collections.Counter(),
           "vtime": 0.0, "steps": 0}
    for i in range(start, start + count):
        rs = run_seed(verif_seed, pid, tier, i)
        rnd = random.Random(rs)
        faulthandler.dump_traceback_later(per_run_timeout, exit=True)
        try:
            sc = camp.scenario(rnd, tier)
            if sc is None:
                continue
            sc["seed"] = rs
            sc["index"] = i
            ev = camp.evaluate(sc)
        except Exception as e:
            out["harness"].append({"i": i, "seed": rs, "error": f"{type(e).__name__}: {e}",
                                   "tb": traceback.format_exc()[-1500:]})
            continue
        finally:
            faulthandler.cancel_dump_traceback_later()
        out["n"] += ev.get("evals", 1)
        out["scenarios"] = out.get("scenarios", 0) + 1
        res = ev["res"]
        st = res.get("stats", {})
        out["vtime"] += st.get("vtime", 0.0) or 0.0
        out["steps"] += st.get("loop_steps", 0) or 0
        c = out["counters"]
        for k in ("cb", "sends", "raises", "delays", "orphans", "perms"):
            if st.get(k):
                c["rt." + k] += st[k]
        for k, v in ev.get("mstats", {}).items():
            if v:
                c["m." + k] += v
        for k, v in camp.counters(sc, ev).items():
            if v:
                c[k] += v
        for k in style_probes(sc):
            c[k] += 1
        for u in ev.get("unarmed", []):
            out["unarmed"][u] += 1
        key = camp.nontrivial(sc, ev)
        if key is not None:
            out["keys"].add(khash(key))
        for k2 in ev.get("keys", []):
            out["keys"].add(khash(k2))
            key = k2
        out["skeletons"].add(skeleton_hash(res["trace"]))
        if len(out["samples"]) < 1 and key is not None:
            out["samples"].append(camp.sample(sc, ev))
        if ev["violations"]:
            v = ev["violations"][0]
            c["violating_runs"] += 1
            if len(out["violations"]) < 4:
                sc2 = dict(ev.get("scenario") or sc)
                sc2.setdefault("seed", rs)
                sc2.setdefault("index", i)
                out["violations"].append({"i": i, "seed": rs, "scenario": sc2, "violation": v,
                                          "signature": camp.signature(v, sc2), "digest": res["digest"]})
            else:
                out["violations_dropped"] = out.get("violations_dropped", 0) + 1
    out["keys"] = list(out["keys"])
    out["skeletons"] = list(out["skeletons"])
    return out


def sweep(pid, tier, verif_seed, total, jobs, wall_cap, chunk):
    """Parent: returns merged results.  Deterministic set of runs unless the wall cap cuts it."""
    t0 = time.time()
    merged = {"n": 0, "counters": collections.Counter(), "keys": set(), "skeletons": set(),
              "violations": [], "harness": [], "samples": [], "unarmed": collections.Counter(),
              "vtime": 0.0, "steps": 0, "truncated": False, "planned": total}
    ctx = multiprocessing.get_context("fork")
    starts = list(range(0, total, chunk))
    with cf.ProcessPoolExecutor(max_workers=jobs, mp_context=ctx) as ex:
        futs = {}
        it = iter(starts)
        live = set()

        def submit_next():
            try:
                s = next(it)
            except StopIteration:
                return False
            f = ex.submit(run_chunk, pid, tier, verif_seed, s, min(chunk, total - s))
            futs[f] = s
            live.add(f)
            return True

        for _ in range(jobs * 2):
            if not submit_next():
                break
        dead = None
        while live:
            done, _ = cf.wait(live, timeout=5, return_when=cf.FIRST_COMPLETED)
            for f in done:
                live.discard(f)
                try:
                    r = f.result()
                except Exception as e:  # a worker died (timeout dump, crash)
                    dead = f"worker for chunk {futs[f]} died: {type(e).__name__}: {e}"
                    merged["harness"].append({"i": futs[f], "error": dead})
                    continue
                merged["n"] += r["n"]
                merged["counters"].update(r["counters"])
                merged["unarmed"].update(r["unarmed"])
                merged["keys"].update(r["keys"])
                merged["skeletons"].update(r["skeletons"])
                merged["violations"].extend(r["violations"])
                merged["harness"].extend(r["harness"])
                merged["vtime"] += r["vtime"]
                merged["steps"] += r["steps"]
                if len(merged["samples"]) < 5:
                    merged["samples"].extend(r["samples"])
                if time.time() - t0 < wall_cap and dead is None:
                    submit_next()
                # (whether runs were really left out is decided below: is anything left to submit?)
            if dead is not None:
                for f in live:
                    f.cancel()
                break
            if time.time() - t0 > wall_cap + 120:
                merged["harness"].append({"i": -1, "error": "wall cap exceeded by more than 120 s"})
                for f in live:
                    f.cancel()
                break
        try:
            next(it)
            merged["truncated"] = True
        except StopIteration:
            pass
    merged["wall"] = time.time() - t0
    merged["violations"].sort(key=lambda v: v["i"])
    return merged


def default_jobs():
    try:
        n = len(os.sched_getaffinity(0))
    except Exception:
        n = os.cpu_count() or 2
    return max(1, min(16, n))
