"""Command line of the checks: ``bin/check <id> --tier quick|thorough | --replay <file>``."""

import argparse
import collections
import json
import os
import subprocess
import sys
import time

from . import campaign as campaign_mod
from . import known as known_mod
from . import pool
from . import shrink as shrink_mod

VERIF = os.path.dirname(os.path.dirname(os.path.abspath(__file__)))


def _fresh_replay(pid, path):
    """Replay a file in a fresh interpreter; returns (exit code, stdout)."""
    cmd = [sys.executable, os.path.join(VERIF, "bin", "check"), pid, "--replay", path]
    env = dict(os.environ)
    env["PYTHONHASHSEED"] = "0"
    p = subprocess.run(cmd, capture_output=True, text=True, env=env, timeout=600)
    return p.returncode, p.stdout + p.stderr


def do_replay(pid, path):
    camp = campaign_mod.get(pid)
    with open(path) as f:
        doc = json.load(f)
    sc = doc["scenario"]
    ev = camp.evaluate(sc)
    want = doc.get("clause")
    hits = [v for v in ev["violations"] if want is None or v["clause"] == want]
    print(f"replay {path}: digest={ev['res']['digest']} recorded={doc.get('digest')}")
    if hits:
        v = hits[0]
        kf = known_mod.match(pid, camp.signature(v, sc))
        print(json.dumps({"clause": v["clause"], "op": v["op"], "detail": v["detail"]}, default=str)[:2000])
        if kf is not None:
            print(f"KNOWN-FINDING: property={pid} {kf['what']}")
            return 0
        print(f"VIOLATION property={pid} replay={path}")
        return 1
    print(f"replay {path}: no violation of {want or pid} reproduced")
    return 0


def minimise(camp, entry, budget):
    sc = entry["scenario"]
    clause = entry["violation"]["clause"]

    def klass(v):
        # the violation CLASS that must persist while shrinking: clause, kind of finding, and the class
        # of an unexpected exception (so that shrinking cannot drift into another failure, e.g. an
        # operation that no longer fits the shrunk machine)
        d = v.get("detail") or {}
        a = d.get("actual")
        return (v["clause"], v.get("kind"), a.get("cls") if isinstance(a, dict) else None)

    want = klass(entry["violation"])

    def still(c):
        ev = camp.evaluate(c)
        return any(klass(v) == want for v in ev["violations"])

    t0 = time.time()
    if os.environ.get("VERIF_NO_MINIMISE"):
        ev = camp.evaluate(sc)
        v = next((x for x in ev["violations"] if x["clause"] == clause), entry["violation"])
        return sc, v, ev, {"evals": 0, "wall_s": 0.0, "size_before": shrink_mod.size(sc),
                           "size_after": shrink_mod.size(sc)}
    small, evals = shrink_mod.shrink(sc, still, max_evals=budget)
    ev = camp.evaluate(small)
    v = next((x for x in ev["violations"] if x["clause"] == clause), None)
    if v is None:  # should not happen: shrink only keeps failing candidates
        small, ev = sc, camp.evaluate(sc)
        v = next((x for x in ev["violations"] if x["clause"] == clause), entry["violation"])
    return small, v, ev, {"evals": evals, "wall_s": round(time.time() - t0, 2),
                          "size_before": shrink_mod.size(sc), "size_after": shrink_mod.size(small)}


def write_replay(camp, pid, entry, small, v, ev, info, tier, verif_seed):
    from . import render

    rdir = os.environ.get("VERIF_REPLAY_DIR") or os.path.join(VERIF, "replays")
    os.makedirs(rdir, exist_ok=True)
    path = os.path.join(rdir, f"{pid}-{entry['seed']:016x}.json")
    sources = {}
    for p in small["programs"]:
        try:
            sources[p["module"]] = render.render_program(p, p.get("base_name"))
        except Exception:
            pass
    doc = {"property": pid, "clause": v["clause"], "kind": v.get("kind"), "seed": entry["seed"],
           "run_index": entry["i"], "tier": tier, "verif_seed": verif_seed,
           "violation": {"op": v["op"], "detail": v["detail"]},
           "signature": camp.signature(v, small), "digest": ev["res"]["digest"],
           "minimisation": info, "rendered_sources": sources, "scenario": small}
    with open(path, "w") as f:
        json.dump(doc, f, indent=1, default=str)
    return path


def write_evidence(camp, pid, tier, verif_seed, merged, violations, known_hits, wall, extra=None):
    edir = os.environ.get("VERIF_EVIDENCE_DIR") or os.path.join(VERIF, "evidence")
    os.makedirs(edir, exist_ok=True)
    path = os.path.join(edir, f"{pid}.json")
    n = merged["n"]
    cov = {
        "evaluations": int(n),
        "distinct_nontrivial": len(merged["keys"]),
        "rule": camp.rule,
        "samples": merged["samples"][:5] or [{"note": "no non-trivial sample captured"}],
        "planned_runs": merged["planned"],
        "truncated_by_wall_cap": bool(merged["truncated"]),
        "runs_per_hour": int(n / max(wall, 1e-6) * 3600),
        "simulated_seconds": round(merged["vtime"], 3),
        "event_loop_iterations": int(merged["steps"]),
        "distinct_interleavings": len(merged["skeletons"]),
        "interleaving_measure": "distinct hashes of the begin/end (and thread-switch) skeleton of the trace",
        "faults_fired": {k: v for k, v in sorted(merged["counters"].items()) if k.startswith("fault.")},
        "probes": {k: v for k, v in sorted(merged["counters"].items()) if k.startswith("probe.")},
        "counters": {k: v for k, v in sorted(merged["counters"].items())
                     if not k.startswith(("fault.", "probe."))},
        "other_property_divergences_ignored": dict(merged["unarmed"]),
        "fault_kinds_configured": camp.fault_kinds,
        "real_components": camp.real,
        "stubbed_components": camp.stubs,
        "known_findings_hit": known_hits,
        "harness_errors": len(merged["harness"]),
        "jobs": merged.get("jobs"),
    }
    if extra:
        cov.update(extra)
    doc = {"property_id": pid, "tier": tier, "seed": int(verif_seed), "level": camp.level,
           "coverage": cov, "assumptions": camp.assumptions, "wall_s": round(wall, 2),
           "violations": len(violations)}
    with open(path, "w") as f:
        json.dump(doc, f, indent=1, default=str)
    return path


def do_check(pid, tier):
    t0 = time.time()
    camp = campaign_mod.get(pid)
    verif_seed = int(os.environ.get("VERIF_SEED", "0"))
    jobs = int(os.environ.get("VERIF_JOBS", "0")) or pool.default_jobs()
    total = camp.quick_runs if tier == "quick" else camp.thorough_runs
    if os.environ.get("VERIF_RUNS"):
        total = int(os.environ["VERIF_RUNS"])
    cap = camp.quick_wall if tier == "quick" else camp.thorough_wall
    if os.environ.get("VERIF_BUDGET_S"):
        cap = float(os.environ["VERIF_BUDGET_S"])
    print(f"check {pid} tier={tier} VERIF_SEED={verif_seed} runs={total} jobs={jobs} wall_cap={cap}s "
          f"repo={os.environ.get('VERIF_REPO', '/repo')}", flush=True)
    pre = camp.prelude(tier) if hasattr(camp, "prelude") else None
    merged = pool.sweep(pid, tier, verif_seed, total, jobs, cap, camp.chunk)
    merged["jobs"] = jobs
    # ---- classify violations: known finding or new
    known_hits = collections.Counter()
    new = []
    seen_sig = set()
    known_examples = {}
    for e in merged["violations"]:
        kf = known_mod.match(pid, e["signature"])
        if kf is not None:
            known_hits[kf["id"]] += 1
            known_examples.setdefault(kf["id"], e)
            continue
        key = json.dumps(e["signature"], sort_keys=True)
        if key in seen_sig:
            continue
        seen_sig.add(key)
        new.append(e)
    reported = []
    budget = 250 if tier == "quick" else 600
    for e in new[:3]:
        small, v, ev, info = minimise(camp, e, budget)
        sig = camp.signature(v, small)
        kf = known_mod.match(pid, sig)
        if kf is not None:
            known_hits[kf["id"]] += 1
            continue
        path = write_replay(camp, pid, e, small, v, ev, info, tier, verif_seed)
        code, outp = _fresh_replay(pid, path)
        if code == 1 and "VIOLATION" in outp:
            reported.append((path, v, info))
        elif code == 0 and "KNOWN-FINDING" in outp:
            continue
        else:
            merged["harness"].append({"i": e["i"], "error": "minimised replay did not reproduce in a fresh "
                                      f"interpreter (exit {code})", "tb": outp[-800:]})
    if os.environ.get("VERIF_SAVE_KNOWN"):
        # documentation only: a minimised, replayable example of every known finding that was hit
        for kid, e in known_examples.items():
            small, v, ev, info = minimise(camp, e, 250)
            if known_mod.match(pid, camp.signature(v, small)) is None:
                continue
            os.environ["VERIF_REPLAY_DIR"] = os.path.join(VERIF, "findings")
            pth = write_replay(camp, pid, e, small, v, ev, info, tier, verif_seed)
            os.rename(pth, os.path.join(VERIF, "findings", kid + ".json"))
            del os.environ["VERIF_REPLAY_DIR"]
    wall = time.time() - t0
    extra = {}
    if pre:
        extra["prelude"] = pre
    write_evidence(camp, pid, tier, verif_seed, merged, reported, dict(known_hits), wall, extra)
    c = merged["counters"]
    print(f"  runs={merged['n']} wall={wall:.1f}s nontrivial={len(merged['keys'])} "
          f"interleavings={len(merged['skeletons'])} vtime={merged['vtime']:.0f}s "
          f"violating_runs={c.get('violating_runs', 0)} harness_errors={len(merged['harness'])}"
          f"{' TRUNCATED' if merged['truncated'] else ''}", flush=True)
    for kid, cnt in sorted(known_hits.items()):
        kf = known_mod.by_id(kid)
        print(f"KNOWN-FINDING: property={pid} {kf['what']} [id={kid}, hit in {cnt} run(s)]")
    for kf in known_mod.listed(pid):
        if kf["id"] not in known_hits:
            print(f"  note: known finding {kf['id']} was not reproduced by this run")
    if reported:
        for path, v, info in reported:
            print(f"  clause={v['clause']} op={v['op']} detail={json.dumps(v['detail'], default=str)[:600]}")
            print(f"  minimised {info['size_before']}->{info['size_after']} in {info['evals']} evaluations")
            print(f"VIOLATION property={pid} replay={path}")
        return 1
    if merged["harness"]:
        for h in merged["harness"][:5]:
            print(f"HARNESS-ERROR property={pid} run={h.get('i')} {h.get('error')}")
            if h.get("tb"):
                print(h["tb"])
        return 2
    if merged["n"] == 0:
        print(f"HARNESS-ERROR property={pid} no run completed")
        return 2
    print(f"OK property={pid} held on {merged['n']} runs")
    return 0


def main(argv=None):
    ap = argparse.ArgumentParser(prog="check")
    ap.add_argument("pid")
    ap.add_argument("--tier", default=os.environ.get("VERIF_TIER", "quick"), choices=["quick", "thorough"])
    ap.add_argument("--replay")
    ap.add_argument("--sensitivity", action="store_true")
    a = ap.parse_args(argv)
    if a.pid == "selftest":
        from . import selftest

        return selftest.main(a)
    if a.replay:
        return do_replay(a.pid, a.replay)
    return do_check(a.pid, a.tier)
