"""Campaign base class: one campaign per property (DESIGN §2.9, §3).

A campaign owns (a) a generator envelope, (b) the set of generic finding kinds it has *armed* and
the clause of its property each maps to, (c) the rule for "non-trivial" runs, (d) the signature
used to recognise known findings.
"""

import hashlib
import json
import random

from . import gen
from . import match
from . import run


def run_seed(verif_seed, pid, tier, i):
    h = hashlib.sha256(f"{verif_seed}:{pid}:{tier}:{i}".encode()).digest()
    return int.from_bytes(h[:8], "big")


def skeleton_hash(trace):
    h = hashlib.blake2b(digest_size=8)
    for r in trace:
        k = r["k"]
        if k in ("cb+", "cb-"):
            h.update(f"{k}{r['c']}|".encode())
        elif k == "sw":
            h.update(f"sw{r.get('to')}|".encode())
    return int.from_bytes(h.digest(), "big")


def khash(obj):
    return int.from_bytes(hashlib.blake2b(json.dumps(obj, sort_keys=True, default=str).encode(),
                                          digest_size=8).digest(), "big")


class Campaign:
    pid = "C00"
    level = "exploration"
    title = ""
    technique = "deterministic simulation: seeded scenario search vs. reference interpreter"
    quick_runs = 3000
    thorough_runs = 60000
    quick_wall = 50
    thorough_wall = 540
    chunk = 40
    coarse = False
    armed = {}
    rule = ""
    assumptions = []
    real = ["statemachine package (engines, callbacks, dispatcher, signature, factory) from /repo's working tree",
            "CPython asyncio Task/Future/gather/timers/ready queue", "threading.Lock", "collections.deque"]
    stubs = ["selector + clock (virtual time)", "asyncio.as_completed task start order (seeded permutation)",
             "user callbacks / models / listeners (generated, behaviour is scenario data)"]
    fault_kinds = []

    # ------------------------------------------------------------------ generation
    def knobs(self, rnd, tier):
        return gen.knobs()

    def scenario(self, rnd, tier):
        sc = gen.gen_scenario(rnd, self.knobs(rnd, tier), profile=self.pid)
        return sc

    # ------------------------------------------------------------------ evaluation
    def execute(self, sc):
        return run.execute(sc)

    def evaluate(self, sc):
        res = self.execute(sc)
        m = match.Matcher(sc, res, coarse=self.coarse)
        findings = m.run(stop_at_first=False)
        if getattr(m.ref, "ambiguous", False):
            # rtc=False and a failing group that also holds a sending / raising sibling: the outcome
            # depends on the (unspecified) order inside the group, so the run is not judged
            return {"violations": [], "unarmed": ["ambiguous"], "mstats": m.stats, "res": res}
        viol, unarmed = self.classify(sc, res, findings)
        if not viol:
            viol.extend(self.extra_checks(sc, res, m, unarmed))
        return {"violations": viol, "unarmed": unarmed, "mstats": m.stats, "res": res}

    DESYNC = ("op_exc", "op_state", "model_field", "seq.extra", "seq.missing", "seq.nested_inside",
              "nested_count", "cb_raised", "harness.missing_op", "harness.skipped_live")

    def classify(self, sc, res, findings):
        """First armed finding wins; an *unarmed* finding that means the reference and the run are
        no longer in step (another property's business) ends the judgement of this run."""
        viol, unarmed = [], []
        for f in findings:
            kind = f["kind"]
            clause = self.armed.get(kind)
            if clause is None and "." in kind:
                clause = self.armed.get(kind.split(".", 1)[0] + ".*")
            if clause is None:
                unarmed.append(kind)
                if kind in self.DESYNC:
                    break
                continue
            viol.append({"clause": clause, "kind": kind, "op": f["op"], "detail": f["detail"]})
            break
        return viol, unarmed

    def extra_checks(self, sc, res, m, unarmed):
        return []

    # ------------------------------------------------------------------ evidence helpers
    def nontrivial(self, sc, ev):
        """Return a JSON-able key when the run is non-trivial by this campaign's rule, else None."""
        return None

    def counters(self, sc, ev):
        """Per-run counters merged into the evidence (faults fired, probes ...)."""
        return {}

    def sample(self, sc, ev):
        ops = [f"{o['op']}:{o.get('event', '')}" for o in sc["ops"][:12]]
        p = sc["programs"][0]
        return {"states": len(p["states"]), "transitions": len(p["trans"]), "callbacks": len(p["cbs"]),
                "driver": sc.get("driver"), "ops": ops, "digest": ev["res"]["digest"]}

    def signature(self, v, sc):
        d = v.get("detail", {})
        sig = {"clause": v["clause"], "kind": v.get("kind")}
        for k in ("expected", "actual"):
            x = d.get(k)
            if isinstance(x, dict) and "cls" in x:
                sig[k + "_cls"] = x["cls"]
        return sig


REGISTRY = {}


def register(cls):
    REGISTRY[cls.pid] = cls
    return cls


def get(pid):
    from . import campaigns  # noqa: F401  (populates REGISTRY)

    return REGISTRY[pid]()
